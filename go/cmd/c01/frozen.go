// Frozen pttbbs layouts for the Go property oracle (C01).  HAND-WRITTEN transcription of pttbbs
// include/pttstruct.h, include/fav.h and c-pttbbs/shm_offset.c — the same table as
// lean/PttVerif/Spec/C01Frozen.lean (both written by frozen_table.py, a transcription aid that ./check never
// runs).  Nothing here is derived from the Go sources of the repository under check.
package main

type member struct {
	goName string
	cDecl  string
	elem   int
	align  int
	count  int
}

type cstruct struct {
	packed  bool
	members []member
}

// K: the site constants the shared-memory structures are sized by.
type K struct {
	MAX_USERS, MAX_ACTIVE, MAX_BOARD, HASH_BITS, MAX_FRIEND, MAX_REJECT, MAX_MSGS, MAX_ADBANNER, MAX_ADBANNER_SECTION, MAX_ADBANNER_HEIGHT, HOTBOARDCACHE, MAX_FROM int
}

func alignUpC(x, a int) int { return (x + a - 1) / a * a }

type fpos struct {
	name      string
	off, size int
}

func (s cstruct) fields() []fpos {
	var out []fpos
	off := 0
	for _, m := range s.members {
		o := off
		if !s.packed {
			o = alignUpC(off, m.align)
		}
		out = append(out, fpos{m.goName, o, m.elem * m.count})
		off = o + m.elem*m.count
	}
	return out
}

func (s cstruct) size() int {
	off, ma := 0, 1
	for _, m := range s.members {
		if !s.packed {
			off = alignUpC(off, m.align)
		}
		off += m.elem * m.count
		if m.align > ma {
			ma = m.align
		}
	}
	if s.packed {
		return off
	}
	return alignUpC(off, ma)
}

func frozenSize(name string, k K) int { return frozen(name, k).size() }

var frozenNames = []string{"UserecRaw", "Userec2Raw", "BoardHeaderRaw", "FileHeaderRaw", "PostLog", "FavBoard", "FavLine", "Fav4Board", "MsgQueueRaw", "UserInfoRaw", "shmGV2", "SHMRaw"}

var documentedSize = map[string]int{"UserecRaw": 512, "Userec2Raw": 128, "BoardHeaderRaw": 256, "FileHeaderRaw": 128, "PostLog": 100, "FavBoard": 12, "FavLine": 1, "Fav4Board": 12, "MsgQueueRaw": 100, "shmGV2": 2048}

// intended: which fields of which record each partial update is meant to touch, and the stride constant.
var intended = map[string]struct {
	typ, stride string
	fields      []string
}{
	"cmbbs.PasswdQuery":            {"UserecRaw", "USEREC_RAW_SZ", []string{}},
	"cmbbs.PasswdUpdate":           {"UserecRaw", "USEREC_RAW_SZ", []string{}},
	"cmbbs.PasswdQueryPasswd":      {"UserecRaw", "USEREC_RAW_SZ", []string{"PasswdHash"}},
	"cmbbs.PasswdQueryUserLevel":   {"UserecRaw", "USEREC_RAW_SZ", []string{"UserLevel"}},
	"cmbbs.PasswdUpdatePasswd":     {"UserecRaw", "USEREC_RAW_SZ", []string{"PasswdHash"}},
	"cmbbs.PasswdUpdateEmail":      {"UserecRaw", "USEREC_RAW_SZ", []string{"Email"}},
	"cache.passwdUpdateMoney":      {"UserecRaw", "USEREC_RAW_SZ", []string{"Money"}},
	"cmbbs.PasswdGetUserLevel2":    {"Userec2Raw", "", []string{"UserLevel2"}},
	"cmbbs.PasswdUpdateUserLevel2": {"Userec2Raw", "", []string{"UserLevel2", "UserLevel2", "UpdateTS"}},
}

func frozen(name string, k K) cstruct {
	switch name {
	case "UserecRaw": // userec_t — .PASSWDS record
		return cstruct{true, []member{
			{"Version", "uint32_t version", 4, 4, 1},
			{"UserID", "char userid[IDLEN+1]", 1, 1, 13},
			{"RealName", "char realname[REALNAMESZ]", 1, 1, 20},
			{"Nickname", "char nickname[NICKNAMESZ]", 1, 1, 24},
			{"PasswdHash", "char passwd[PASSLEN]", 1, 1, 14},
			{"Pad1", "char pad_1", 1, 1, 1},
			{"UFlag", "uint32_t uflag", 4, 4, 1},
			{"Unused1", "uint32_t _unused1", 4, 4, 1},
			{"UserLevel", "uint32_t userlevel", 4, 4, 1},
			{"NumLoginDays", "uint32_t numlogindays", 4, 4, 1},
			{"NumPosts", "uint32_t numposts", 4, 4, 1},
			{"FirstLogin", "time4_t firstlogin", 4, 4, 1},
			{"LastLogin", "time4_t lastlogin", 4, 4, 1},
			{"LastHost", "char lasthost[IPV4LEN+1]", 1, 1, 16},
			{"Money", "int32_t money", 4, 4, 1},
			{"Unused2", "char _unused[4]", 1, 1, 4},
			{"Email", "char email[EMAILSZ]", 1, 1, 50},
			{"Address", "char address[ADDRESSSZ]", 1, 1, 50},
			{"Justify", "char justify[REGLEN+1]", 1, 1, 39},
			{"UnusedBirth", "uint8_t _unused_birth[3]", 1, 1, 3},
			{"Over18", "uint8_t over_18", 1, 1, 1},
			{"PagerUIType", "uint8_t pager_ui_type", 1, 1, 1},
			{"Pager", "uint8_t pager", 1, 1, 1},
			{"Invisible", "uint8_t invisible", 1, 1, 1},
			{"Unused4", "char _unused4[2]", 1, 1, 2},
			{"Exmailbox", "uint32_t exmailbox", 4, 4, 1},
			{"Unused5", "char _unused5[4]", 1, 1, 4},
			{"Career", "char career[CAREERSZ]", 1, 1, 40},
			{"UnusedPhone", "char _unused_phone[PHONESZ]", 1, 1, 20},
			{"Unused6", "uint32_t _unused6", 4, 4, 1},
			{"Chkpad1", "char chkpad1[44]", 1, 1, 44},
			{"Role", "uint32_t role", 4, 4, 1},
			{"LastSeen", "time4_t lastseen", 4, 4, 1},
			{"TimeSetAngel", "time4_t timesetangel", 4, 4, 1},
			{"TimePlayAngel", "time4_t timeplayangel", 4, 4, 1},
			{"LastSong", "time4_t lastsong", 4, 4, 1},
			{"LoginView", "uint32_t loginview", 4, 4, 1},
			{"Unused8", "uint8_t _unused8", 1, 1, 1},
			{"Pad2", "char pad_2", 1, 1, 1},
			{"VlCount", "uint16_t vl_count", 2, 2, 1},
			{"FiveWin", "uint16_t five_win", 2, 2, 1},
			{"FiveLose", "uint16_t five_lose", 2, 2, 1},
			{"FiveTie", "uint16_t five_tie", 2, 2, 1},
			{"ChcWin", "uint16_t chc_win", 2, 2, 1},
			{"ChcLose", "uint16_t chc_lose", 2, 2, 1},
			{"ChcTie", "uint16_t chc_tie", 2, 2, 1},
			{"Conn6Win", "uint16_t conn6_win", 2, 2, 1},
			{"Conn6Lose", "uint16_t conn6_lose", 2, 2, 1},
			{"Conn6Tie", "uint16_t conn6_tie", 2, 2, 1},
			{"UnusedMind", "char _unused_mind[2]", 1, 1, 2},
			{"GoWin", "uint16_t go_win", 2, 2, 1},
			{"GoLose", "uint16_t go_lose", 2, 2, 1},
			{"GoTie", "uint16_t go_tie", 2, 2, 1},
			{"DarkWin", "uint16_t dark_win", 2, 2, 1},
			{"DarkLose", "uint16_t dark_lose", 2, 2, 1},
			{"UaVersion", "uint8_t ua_version", 1, 1, 1},
			{"Signature", "uint8_t signature", 1, 1, 1},
			{"Unused10", "uint8_t _unused10", 1, 1, 1},
			{"BadPost", "uint8_t badpost", 1, 1, 1},
			{"DarkTie", "uint16_t dark_tie", 2, 2, 1},
			{"MyAngel", "char myangel[IDLEN+1]", 1, 1, 13},
			{"Pad3", "char pad_3", 1, 1, 1},
			{"ChessEloRating", "uint16_t chess_elo_rating", 2, 2, 1},
			{"WithMe", "uint32_t withme", 4, 4, 1},
			{"TimeRemoveBadPost", "time4_t timeremovebadpost", 4, 4, 1},
			{"TimeViolateLaw", "time4_t timeviolatelaw", 4, 4, 1},
			{"PadTail", "char pad_tail[28]", 1, 1, 28},
		}}
	case "Userec2Raw": // userec2 (go-pttbbs) — .passwd2 record
		return cstruct{true, []member{
			{"Version", "uint32_t version", 4, 4, 1},
			{"UserLevel2", "uint32_t userlevel2", 4, 4, 1},
			{"UpdateTS", "time4_t update_ts", 4, 4, 1},
			{"PadTail", "char pad_tail[116]", 1, 1, 116},
		}}
	case "BoardHeaderRaw": // boardheader_t — .BRD record
		return cstruct{true, []member{
			{"Brdname", "char brdname[IDLEN+1]", 1, 1, 13},
			{"Title", "char title[BTLEN+1]", 1, 1, 49},
			{"BM", "char BM[IDLEN*3+3]", 1, 1, 39},
			{"Pad1", "char pad1[3]", 1, 1, 3},
			{"BrdAttr", "uint32_t brdattr", 4, 4, 1},
			{"ChessCountry", "char chesscountry", 1, 1, 1},
			{"VoteLimitPosts_", "uint8_t _vote_limit_posts", 1, 1, 1},
			{"VoteLimitLogins", "uint8_t vote_limit_logins", 1, 1, 1},
			{"Pad2_1", "uint8_t pad2_1[1]", 1, 1, 1},
			{"BUpdate", "time4_t bupdate", 4, 4, 1},
			{"PostLimitPosts_", "uint8_t _post_limit_posts", 1, 1, 1},
			{"PostLimitLogins", "uint8_t post_limit_logins", 1, 1, 1},
			{"Pad2_2", "uint8_t pad2_2[1]", 1, 1, 1},
			{"BVote", "uint8_t bvote", 1, 1, 1},
			{"VTime", "time4_t vtime", 4, 4, 1},
			{"Level", "uint32_t level", 4, 4, 1},
			{"PermReload", "time4_t perm_reload", 4, 4, 1},
			{"Gid", "int32_t gid", 4, 4, 1},
			{"Next", "int32_t next[2]", 4, 4, 2},
			{"FirstChild", "int32_t firstchild[2]", 4, 4, 2},
			{"Parent", "int32_t parent", 4, 4, 1},
			{"ChildCount", "int32_t childcount", 4, 4, 1},
			{"NUser", "int32_t nuser", 4, 4, 1},
			{"PostExpire", "int32_t postexpire", 4, 4, 1},
			{"EndGamble", "time4_t endgamble", 4, 4, 1},
			{"PostType", "char posttype[33]", 1, 1, 33},
			{"PostTypeF", "char posttype_f", 1, 1, 1},
			{"FastRecommendPause", "uint8_t fastrecommend_pause", 1, 1, 1},
			{"VoteLimitBadpost", "uint8_t vote_limit_badpost", 1, 1, 1},
			{"PostLimitBadpost", "uint8_t post_limit_badpost", 1, 1, 1},
			{"Pad3", "char pad3[3]", 1, 1, 3},
			{"SRexpire", "time4_t SRexpire", 4, 4, 1},
			{"Pad4", "char pad4[40]", 1, 1, 40},
		}}
	case "FileHeaderRaw": // fileheader_t — .DIR record
		return cstruct{true, []member{
			{"Filename", "char filename[FNLEN]", 1, 1, 28},
			{"Modified", "time4_t modified", 4, 4, 1},
			{"Pad", "char pad", 1, 1, 1},
			{"Recommend", "char recommend", 1, 1, 1},
			{"Owner", "char owner[IDLEN+2]", 1, 1, 14},
			{"Date", "char date[6]", 1, 1, 6},
			{"Title", "char title[TTLEN+1]", 1, 1, 65},
			{"Pad2", "char pad2", 1, 1, 1},
			{"Multi", "union { int money; int anon_uid; struct vote_limits; struct refer; } multi", 1, 1, 4},
			{"Filemode", "unsigned char filemode", 1, 1, 1},
			{"Pad3", "char pad3[3]", 1, 1, 3},
		}}
	case "PostLog": // postlog_t — .post record
		return cstruct{false, []member{
			{"Author", "char author[IDLEN+1]", 1, 1, 13},
			{"Board", "char board[IDLEN+1]", 1, 1, 13},
			{"Title", "char title[66] (first 65 bytes)", 1, 1, 65},
			{"Pad", "char title[66] (last byte)", 1, 1, 1},
			{"TheDate", "time4_t date", 4, 4, 1},
			{"Number", "int number", 4, 4, 1},
		}}
	case "FavBoard": // fav_board_t — .fav board entry
		return cstruct{false, []member{
			{"Bid", "int32_t bid", 4, 4, 1},
			{"LastVisit", "time4_t lastvisit", 4, 4, 1},
			{"Attr", "char attr", 1, 1, 1},
		}}
	case "FavLine": // fav_line_t — .fav line entry
		return cstruct{false, []member{
			{"Lid", "int8_t lid", 1, 1, 1},
		}}
	case "Fav4Board": // fav4_board_t — version-4 .fav board entry
		return cstruct{false, []member{
			{"Bid", "int32_t bid", 4, 4, 1},
			{"LastVisit", "time4_t lastvisit", 4, 4, 1},
			{"Attr", "char attr", 1, 1, 1},
		}}
	case "MsgQueueRaw": // msgque_t — shared-memory message
		return cstruct{false, []member{
			{"Pid", "pid_t pid", 4, 4, 1},
			{"UserID", "char userid[IDLEN+1]", 1, 1, 13},
			{"LastCallIn", "char last_call_in[76]", 1, 1, 76},
			{"MsgMode", "int msgmode", 4, 4, 1},
		}}
	case "UserInfoRaw": // userinfo_t — shared-memory user slot
		return cstruct{false, []member{
			{"UID", "int uid", 4, 4, 1},
			{"Pid", "pid_t pid", 4, 4, 1},
			{"SockAddr", "int sockaddr", 4, 4, 1},
			{"UserLevel", "unsigned int userlevel", 4, 4, 1},
			{"UserID", "char userid[IDLEN+1]", 1, 1, 13},
			{"Nickname", "char nickname[24]", 1, 1, 24},
			{"From", "char from[27]", 1, 1, 27},
			{"FromIP", "in_addr_t from_ip", 4, 4, 1},
			{"DarkWin", "unsigned short dark_win", 2, 2, 1},
			{"DarkLose", "unsigned short dark_lose", 2, 2, 1},
			{"Gap0", "char gap_0", 1, 1, 1},
			{"AngelPause", "unsigned char angelpause", 1, 1, 1},
			{"DarkTie", "unsigned short dark_tie", 2, 2, 1},
			{"FriendTotal", "int friendtotal", 4, 4, 1},
			{"NFriends", "short nFriends", 2, 2, 1},
			{"Unused3_", "short _unused3", 2, 2, 1},
			{"MyFriend", "int myfriend[MAX_FRIEND]", 4, 4, (k.MAX_FRIEND)},
			{"Gap1", "char gap_1[4]", 1, 1, 4},
			{"FriendOnline", "unsigned int friend_online[MAX_FRIEND]", 4, 4, (k.MAX_FRIEND)},
			{"Gap2", "char gap_2[4]", 1, 1, 4},
			{"Reject", "int reject[MAX_REJECT]", 4, 4, (k.MAX_REJECT)},
			{"Gap3", "char gap_3[4]", 1, 1, 4},
			{"MsgCount", "char msgcount", 1, 1, 1},
			{"Unused4_", "char _unused4[3]", 1, 1, 3},
			{"Msgs", "msgque_t msgs[MAX_MSGS]", frozenSize("MsgQueueRaw", k), 4, (k.MAX_MSGS)},
			{"Gap4", "char gap_4[sizeof(msgque_t)]", 1, 1, frozenSize("MsgQueueRaw", k)},
			{"Birth", "char birth", 1, 1, 1},
			{"Active", "unsigned char active", 1, 1, 1},
			{"Invisible", "unsigned char invisible", 1, 1, 1},
			{"Mode", "unsigned char mode", 1, 1, 1},
			{"Pager", "unsigned char pager", 1, 1, 1},
			{"Unused5_", "char _unused5", 1, 1, 1},
			{"Conn6Win", "unsigned short conn6_win", 2, 2, 1},
			{"LastAct", "time4_t lastact", 4, 4, 1},
			{"Alerts", "char alerts", 1, 1, 1},
			{"UnusedMind_", "char _unused_mind", 1, 1, 1},
			{"Conn6Lose", "unsigned short conn6_lose", 2, 2, 1},
			{"UnusedMind2_", "char _unused_mind2", 1, 1, 1},
			{"Sig", "char sig", 1, 1, 1},
			{"Conn6Tie", "unsigned short conn6_tie", 2, 2, 1},
			{"DestUID", "int destuid", 4, 4, 1},
			{"DestUip", "int destuip", 4, 4, 1},
			{"SockActive", "unsigned char sockactive", 1, 1, 1},
			{"InChat", "unsigned char in_chat", 1, 1, 1},
			{"Chatid", "char chatid[11]", 1, 1, 11},
			{"LockMode", "unsigned char lockmode", 1, 1, 1},
			{"Turn", "char turn", 1, 1, 1},
			{"Mateid", "char mateid[IDLEN+1]", 1, 1, 13},
			{"Color", "char color", 1, 1, 1},
			{"FiveWin", "unsigned short five_win", 2, 2, 1},
			{"FiveLose", "unsigned short five_lose", 2, 2, 1},
			{"FiveTie", "unsigned short five_tie", 2, 2, 1},
			{"ChcWin", "unsigned short chc_win", 2, 2, 1},
			{"ChcLose", "unsigned short chc_lose", 2, 2, 1},
			{"ChcTie", "unsigned short chc_tie", 2, 2, 1},
			{"ChessEloRating", "unsigned short chess_elo_rating", 2, 2, 1},
			{"GoWin", "unsigned short go_win", 2, 2, 1},
			{"GoLose", "unsigned short go_lose", 2, 2, 1},
			{"GoTie", "unsigned short go_tie", 2, 2, 1},
			{"WithMe", "unsigned int withme", 4, 4, 1},
			{"BrcID", "unsigned int brc_id", 4, 4, 1},
			{"WBTime", "time4_t wbtime /* NOKILLWATERBALL */", 4, 4, 1},
		}}
	case "shmGV2": // SHM_t.GV2 (union { int v[512]; struct e }) — shared-memory global variables
		return cstruct{false, []member{
			{"DyMaxMctive", "int dymaxactive", 4, 4, 1},
			{"TooManyUsers", "int toomanyusers", 4, 4, 1},
			{"NoonLineUser", "int noonlineuser", 4, 4, 1},
			{"Now", "time4_t now", 4, 4, 1},
			{"NWelcomes", "int nWelcomes", 4, 4, 1},
			{"Shutdown", "int shutdown", 4, 4, 1},
			{"Dummy", "(rest of int v[512])", 4, 4, 506},
		}}
	case "SHMRaw": // SHM_t — the shared-memory segment
		return cstruct{false, []member{
			{"Version", "int version", 4, 4, 1},
			{"Size", "int size", 4, 4, 1},
			{"Userid", "char userid[MAX_USERS][IDLEN+1]", 13, 1, (k.MAX_USERS)},
			{"Gap1", "char gap_1[IDLEN+1]", 1, 1, 13},
			{"NextInHash", "int next_in_hash[MAX_USERS]", 4, 4, (k.MAX_USERS)},
			{"Gap2", "char gap_2[sizeof(int)]", 1, 1, 4},
			{"Money", "int money[MAX_USERS]", 4, 4, (k.MAX_USERS)},
			{"Gap3", "char gap_3[sizeof(int)]", 1, 1, 4},
			{"CooldownTime", "time4_t cooldowntime[MAX_USERS] /* USE_COOLDOWN */", 4, 4, (k.MAX_USERS)},
			{"Gap4", "char gap_4[sizeof(int)]", 1, 1, 4},
			{"HashHead", "int hash_head[1 << HASH_BITS]", 4, 4, (1 << uint(k.HASH_BITS))},
			{"Gap5", "char gap_5[sizeof(int)]", 1, 1, 4},
			{"Number", "int number", 4, 4, 1},
			{"Loaded", "int loaded", 4, 4, 1},
			{"UInfo", "userinfo_t uinfo[USHM_SIZE]", frozenSize("UserInfoRaw", k), 4, (k.MAX_ACTIVE * 41 / 40)},
			{"Gap6", "char gap_6[sizeof(userinfo_t)]", 1, 1, frozenSize("UserInfoRaw", k)},
			{"Sorted", "int sorted[2][9][USHM_SIZE]", 4, 4, (2 * 9 * (k.MAX_ACTIVE * 41 / 40))},
			{"Gap7", "char gap_7[sizeof(int)]", 1, 1, 4},
			{"CurrSorted", "int currsorted", 4, 4, 1},
			{"UTMPUptime", "time4_t UTMPuptime", 4, 4, 1},
			{"UTMPNumber", "int UTMPnumber", 4, 4, 1},
			{"UTMPNeedSort", "char UTMPneedsort", 1, 1, 1},
			{"UTMPBusyState", "char UTMPbusystate", 1, 1, 1},
			{"Gap8", "char gap_8[sizeof(int)]", 1, 1, 4},
			{"BMCache", "int BMcache[MAX_BOARD][MAX_BMs]", 4, 4, (k.MAX_BOARD * 4)},
			{"Gap9", "char gap_9[sizeof(int)]", 1, 1, 4},
			{"BCache", "boardheader_t bcache[MAX_BOARD]", frozenSize("BoardHeaderRaw", k), 1, (k.MAX_BOARD)},
			{"Gap10", "char gap_10[sizeof(int)]", 1, 1, 4},
			{"BSorted", "int bsorted[2][MAX_BOARD]", 4, 4, (2 * k.MAX_BOARD)},
			{"Gap11", "char gap_11[sizeof(int)]", 1, 1, 4},
			{"NHOTs", "unsigned char nHOTs /* HOTBOARDCACHE */", 1, 1, 1},
			{"HBcache", "int HBcache[HOTBOARDCACHE]", 4, 4, (k.HOTBOARDCACHE)},
			{"Gap12", "char gap_12[sizeof(int)]", 1, 1, 4},
			{"BusyStateB", "time4_t busystate_b[MAX_BOARD]", 4, 4, (k.MAX_BOARD)},
			{"Gap13", "char gap_13[sizeof(int)]", 1, 1, 4},
			{"Total", "int total[MAX_BOARD]", 4, 4, (k.MAX_BOARD)},
			{"Gap14", "char gap_14[sizeof(int)]", 1, 1, 4},
			{"NBottom", "unsigned char n_bottom[MAX_BOARD]", 1, 1, (k.MAX_BOARD)},
			{"Gap15", "char gap_15[sizeof(int)]", 1, 1, 4},
			{"Hbfl", "int hbfl[MAX_BOARD][MAX_FRIEND+1]", 4, 4, (k.MAX_BOARD * (k.MAX_FRIEND + 1))},
			{"Gap16", "char gap_16[sizeof(int)]", 1, 1, 4},
			{"LastPostTime", "time4_t lastposttime[MAX_BOARD]", 4, 4, (k.MAX_BOARD)},
			{"Gap17", "char gap_17[sizeof(int)]", 1, 1, 4},
			{"BUptime", "time4_t Buptime", 4, 4, 1},
			{"BTouchTime", "time4_t Btouchtime", 4, 4, 1},
			{"BNumber", "int Bnumber", 4, 4, 1},
			{"BBusyState", "int Bbusystate", 4, 4, 1},
			{"CloseVoteTime", "time4_t close_vote_time", 4, 4, 1},
			{"Notes", "char notes[MAX_ADBANNER][256*MAX_ADBANNER_HEIGHT]", 1, 1, (k.MAX_ADBANNER * (256 * k.MAX_ADBANNER_HEIGHT))},
			{"Gap18", "char gap_18[sizeof(int)]", 1, 1, 4},
			{"TodayIs", "char today_is[20]", 1, 1, 20},
			{"NeverUsedNNotes_", "int __never_used__n_notes[MAX_ADBANNER_SECTION]", 4, 4, (k.MAX_ADBANNER_SECTION)},
			{"Gap19", "char gap_19[sizeof(int)]", 1, 1, 4},
			{"NeverUsedNextRefresh_", "int __never_used__next_refresh[MAX_ADBANNER_SECTION]", 4, 4, (k.MAX_ADBANNER_SECTION)},
			{"Gap20", "char gap_20[sizeof(int)]", 1, 1, 4},
			{"LoginMsg", "msgque_t loginmsg", frozenSize("MsgQueueRaw", k), 4, 1},
			{"LastFilm", "int last_film", 4, 4, 1},
			{"LastUsong", "int last_usong", 4, 4, 1},
			{"PUptime", "time4_t Puptime", 4, 4, 1},
			{"PTouchTime", "time4_t Ptouchtime", 4, 4, 1},
			{"PBusyState", "int Pbusystate", 4, 4, 1},
			{"GV2", "union { int v[512]; struct e; } GV2", frozenSize("shmGV2", k), 4, 1},
			{"Statistic", "unsigned int statistic[STAT_MAX]", 4, 4, 512},
			{"DeprecatedHomeIp_", "unsigned int _deprecated_home_ip[MAX_FROM]", 4, 4, (k.MAX_FROM)},
			{"DeprecatedHomeMask_", "unsigned int _deprecated_home_mask[MAX_FROM]", 4, 4, (k.MAX_FROM)},
			{"DeprecatedHomeDesc_", "char _deprecated_home_desc[MAX_FROM][32]", 32, 1, (k.MAX_FROM)},
			{"DeprecatedHomeNum_", "int _deprecated_home_num", 4, 4, 1},
			{"MaxUser", "int max_user", 4, 4, 1},
			{"MaxTime", "time4_t max_time", 4, 4, 1},
			{"FUptime", "time4_t Fuptime", 4, 4, 1},
			{"FTouchTime", "time4_t Ftouchtime", 4, 4, 1},
			{"FBusyState", "int Fbusystate", 4, 4, 1},
		}}
	}
	panic("frozen: unknown type " + name)
}
