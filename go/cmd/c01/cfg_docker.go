//go:build docker

package main

// the build configuration this harness binary was compiled under (selects the Gen data in the Lean driver).
const cfgName = "docker"
