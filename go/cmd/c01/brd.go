package main

// .BRD layer (C01, round 7): "the 256-byte board header of a new board lands at record (bid-1)".
//   newbrd <cfg> <bid> <record> <.BRD before>
// The harness vacates slots of the fixture .BRD (a deleted board: zeroed record), reloads the board cache and
// creates a board with the real ptt.NewBoard; bid and the new record are observations fed back to the model.
// P-hat (Go only): exactly one record differs, it was a vacated one (or the slot behind the last record when
// none is vacated), the returned bid is its 1-based index, it carries the requested name, the length is right.

import (
	"bytes"
	"fmt"
	"os"
	"strings"

	"github.com/Ptt-official-app/go-pttbbs/cache"
	"github.com/Ptt-official-app/go-pttbbs/ptt"
	"github.com/Ptt-official-app/go-pttbbs/ptttype"
	"verifharness/internal/hx"
)

var (
	brdFixture []byte
	brdSeq     int
)

func brdPath() string { return ptttype.FN_BOARD }

// execNewBrd: restore <before>, reload the cache, create a board; bid/record in the op line are replaced by
// what was observed.
func execNewBrd(line string, ws []string) (res result) {
	res.line = line
	_, ok1 := natStrict(ws[2])
	_, ok2 := unhex(ws[3])
	before, ok3 := unhex(ws[4])
	if !ok1 || !ok2 || !ok3 {
		return bad(line)
	}
	if !realSHM {
		ws[2], ws[3] = "0", "00"
		return result{line: strings.Join(ws, " "), out: "ERR", label: "newbrd:skipped"}
	}
	const sz = 256
	putFile(brdPath(), before)
	cache.ReloadBCache()
	n := len(before) / sz
	var vac []int
	for k := 0; k < n; k++ {
		if before[k*sz] == 0 {
			vac = append(vac, k)
		}
	}
	// a parent class that exists in this image (BRD_GROUPBOARD, not vacated)
	cls := ptttype.Bid(0)
	for k := 0; k < n; k++ {
		if before[k*sz] != 0 && before[k*sz+104]&0x08 != 0 {
			cls = ptttype.Bid(k + 1)
			break
		}
	}
	brdSeq++
	name := &ptttype.BoardID_t{}
	copy(name[:], fmt.Sprintf("c01brd%d", brdSeq))
	user := &ptttype.UserecRaw{UserLevel: ptttype.PERM_BASIC | ptttype.PERM_LOGINOK | ptttype.PERM_BM | ptttype.PERM_BOARD | ptttype.PERM_SYSOP}
	copy(user.UserID[:], "SYSOP")
	sum, err := ptt.NewBoard(user, 1, cls, name, []byte("CPBL"), []byte("verif"), nil, 0, 0, 0, false)
	after, _ := os.ReadFile(brdPath())
	key := "brd:new-board"
	cls2 := "append"
	switch {
	case len(vac) > 0 && vac[0] == 0:
		cls2 = "vacated-first"
	case len(vac) > 0 && vac[0] == n-1:
		cls2 = "vacated-last"
	case len(vac) > 1:
		cls2 = "vacated-several"
	case len(vac) > 0:
		cls2 = "vacated-middle"
	}
	res.label = "newbrd:" + cls2
	if err != nil || sum == nil {
		ws[2], ws[3] = "0", "00"
		res.line = strings.Join(ws, " ")
		res.out = "ERR"
		if cls == 0 {
			res.label = "newbrd:no-class"
			return res
		}
		res.fails = append(res.fails, fail{key, fmt.Sprintf("NewBoard under class %d with vacated slots %v failed: %v", cls, vac, err)})
		return res
	}
	bid := int(sum.Bid)
	rec := []byte{0}
	if bid >= 1 && bid*sz <= len(after) {
		rec = after[(bid-1)*sz : bid*sz]
	}
	ws[2], ws[3] = fmt.Sprint(bid), hx.Hex(rec)
	res.line = strings.Join(ws, " ")
	res.out = hx.Hex(after)
	// P-hat
	target := n
	if len(vac) > 0 {
		target = -1
		for _, v := range vac {
			if v == bid-1 {
				target = v
			}
		}
		if target < 0 {
			res.fails = append(res.fails, fail{key, fmt.Sprintf("vacated slots (0-based) %v, NewBoard returned bid %d: not one of them", vac, bid)})
			target = vac[0]
		}
	} else if bid != n+1 {
		res.fails = append(res.fails, fail{key, fmt.Sprintf("no vacated slot among %d boards, NewBoard returned bid %d, expected %d", n, bid, n+1)})
	}
	wantLen := len(before)
	if (target+1)*sz > wantLen {
		wantLen = (target + 1) * sz
	}
	if len(after) != wantLen {
		res.fails = append(res.fails, fail{key, fmt.Sprintf(".BRD is %d bytes after the new board (bid %d), expected %d", len(after), bid, wantLen)})
	}
	for k := 0; (k+1)*sz <= len(after) || (k+1)*sz <= len(before); k++ {
		var a, b []byte
		if (k+1)*sz <= len(after) {
			a = after[k*sz : (k+1)*sz]
		}
		if (k+1)*sz <= len(before) {
			b = before[k*sz : (k+1)*sz]
		}
		if k == target {
			if a == nil || !bytes.HasPrefix(a, append(bytes.TrimRight(name[:], "\x00"), 0)) {
				res.fails = append(res.fails, fail{key, fmt.Sprintf("new board %q (bid %d): record %d of .BRD does not hold its 256-byte header (brdname there: %q)", bytes.TrimRight(name[:], "\x00"), bid, k+1, firstN(a, 12))})
			}
			continue
		}
		if !bytes.Equal(a, b) {
			res.fails = append(res.fails, fail{key, fmt.Sprintf("new board %q re-using the vacated slot of bid %d: the header of bid %d was rewritten (brdname %q -> %q); only record %d may change",
				bytes.TrimRight(name[:], "\x00"), target+1, k+1, firstN(b, 12), firstN(a, 12), target+1)})
			break
		}
	}
	return res
}

func firstN(b []byte, n int) []byte {
	if len(b) < n {
		return b
	}
	return b[:n]
}

func genNewBrd(vac []int) {
	if brdFixture == nil {
		brdFixture = getFile(brdPath())
	}
	before := append([]byte{}, brdFixture...)
	for _, v := range vac {
		if v*256 <= len(before) && v >= 1 {
			copy(before[(v-1)*256:v*256], make([]byte, 256))
		}
	}
	do(fmt.Sprintf("newbrd %s 0 00 %s", cfgName, hx.Hex(before)), true)
}
