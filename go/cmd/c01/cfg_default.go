//go:build !docker

package main

// the build configuration this harness binary was compiled under (selects the Gen data in the Lean driver).
const cfgName = "default"

// realSHM: the harness attaches a private SysV segment with the fixture boards (needed by the .BRD histories).
// The docker configuration (80 MB segment, 20000 board slots) keeps an in-process one and skips those histories.
const realSHM = true
