// c01: correspondence harness + property oracle for the record layouts and the
// partial record updates (property C01).  Compiled twice by checks/c01.py: with the
// default build tags and with -tags docker (production constants).
//
// What it prints as implementation answers comes from the COMPILED code only:
// reflect (unsafe.Offsetof/Sizeof/Alignof of the compiled struct), encoding/binary
// (binary.Size, Read, Write through types.BinaryRead/BinaryWrite/BinRead/BinWrite),
// the exported *_SZ constants, and the real cmbbs/cache functions run on files in a
// private BBSHOME.  The Lean driver answers the same op lines from the layout trees
// the translator regenerated from the source (Gen/Layout*.lean) and from the model
// of the partial updates.
//
// The property oracle P-hat is independent of that model: frozen pttbbs layouts
// (frozen.go), byte diffs outside the addressed field, and agreement of the partial
// accessors with the whole-record reader.
package main

import (
	"bytes"
	"encoding/binary"
	"flag"
	"fmt"
	"os"
	"path/filepath"
	"reflect"
	"sort"
	"strconv"
	"strings"
	"time"
	"unsafe"

	"github.com/Ptt-official-app/go-pttbbs/cache"
	"github.com/Ptt-official-app/go-pttbbs/cmbbs"
	"github.com/Ptt-official-app/go-pttbbs/ptt"
	"github.com/Ptt-official-app/go-pttbbs/ptt/fav"
	"github.com/Ptt-official-app/go-pttbbs/ptttype"
	"github.com/Ptt-official-app/go-pttbbs/types"
	"verifharness/internal/bbsenv"
	"verifharness/internal/hx"
)

// ---- the record types under check ------------------------------------------------

type recType struct {
	name   string
	rt     reflect.Type
	kind   string // disk: serialised whole; fav: serialised and zero-padded to szConst; shm: overlaid on memory
	sz     uintptr
	szName string
}

var recTypes []recType

func initTypes() {
	shm := reflect.TypeOf((*cache.SHMRaw)(nil)).Elem()
	gv2, _ := shm.FieldByName("GV2")
	recTypes = []recType{
		{"UserecRaw", reflect.TypeOf((*ptttype.UserecRaw)(nil)).Elem(), "disk", ptttype.USEREC_RAW_SZ, "USEREC_RAW_SZ"},
		{"Userec2Raw", reflect.TypeOf((*ptttype.Userec2Raw)(nil)).Elem(), "disk", ptttype.USEREC2_RAW_SZ, "USEREC2_RAW_SZ"},
		{"BoardHeaderRaw", reflect.TypeOf((*ptttype.BoardHeaderRaw)(nil)).Elem(), "disk", ptttype.BOARD_HEADER_RAW_SZ, "BOARD_HEADER_RAW_SZ"},
		{"FileHeaderRaw", reflect.TypeOf((*ptttype.FileHeaderRaw)(nil)).Elem(), "disk", ptttype.FILE_HEADER_RAW_SZ, "FILE_HEADER_RAW_SZ"},
		{"PostLog", reflect.TypeOf((*ptt.PostLog)(nil)).Elem(), "disk", ptt.POSTLOG_SZ, "POSTLOG_SZ"},
		{"FavBoard", reflect.TypeOf((*fav.FavBoard)(nil)).Elem(), "fav", fav.SIZE_OF_FAV_BOARD, "SIZE_OF_FAV_BOARD"},
		{"FavLine", reflect.TypeOf((*fav.FavLine)(nil)).Elem(), "fav", fav.SIZE_OF_FAV_LINE, "SIZE_OF_FAV_LINE"},
		{"Fav4Board", reflect.TypeOf((*fav.Fav4Board)(nil)).Elem(), "fav", fav.SIZE_OF_FAV4_BOARD, "SIZE_OF_FAV4_BOARD"},
		{"MsgQueueRaw", reflect.TypeOf((*ptttype.MsgQueueRaw)(nil)).Elem(), "shm", ptttype.MSG_QUEUE_RAW_SZ, "MSG_QUEUE_RAW_SZ"},
		{"UserInfoRaw", reflect.TypeOf((*ptttype.UserInfoRaw)(nil)).Elem(), "shm", ptttype.USER_INFO_RAW_SZ, "USER_INFO_RAW_SZ"},
		{"shmGV2", gv2.Type, "shm", 0, ""},
		{"SHMRaw", shm, "shm", cache.SHM_RAW_SZ, "SHM_RAW_SZ"},
	}
}

func findType(name string) *recType {
	for i := range recTypes {
		if recTypes[i].name == name {
			return &recTypes[i]
		}
	}
	return nil
}

// the compiled constants (what the driver answers from Gen `consts`)
var compiledConsts = map[string]uint64{
	"USEREC_RAW_SZ": uint64(ptttype.USEREC_RAW_SZ), "USEREC2_RAW_SZ": uint64(ptttype.USEREC2_RAW_SZ),
	"DEFAULT_USEREC2_RAW_SZ": uint64(ptttype.DEFAULT_USEREC2_RAW_SZ),
	"BOARD_HEADER_RAW_SZ":    uint64(ptttype.BOARD_HEADER_RAW_SZ), "FILE_HEADER_RAW_SZ": uint64(ptttype.FILE_HEADER_RAW_SZ),
	"USER_INFO_RAW_SZ": uint64(ptttype.USER_INFO_RAW_SZ), "MSG_QUEUE_RAW_SZ": uint64(ptttype.MSG_QUEUE_RAW_SZ),
	"POSTLOG_SZ": uint64(ptt.POSTLOG_SZ), "SIZE_OF_FAV_BOARD": uint64(fav.SIZE_OF_FAV_BOARD),
	"SIZE_OF_FAV_LINE": uint64(fav.SIZE_OF_FAV_LINE), "SIZE_OF_FAV4_BOARD": uint64(fav.SIZE_OF_FAV4_BOARD),
	"SHM_RAW_SZ": uint64(cache.SHM_RAW_SZ), "DUMMY_SHMGV2": uint64(cache.DUMMY_SHMGV2),
	"INT32_SZ": uint64(types.INT32_SZ), "TIME4_SZ": uint64(types.TIME4_SZ),
	"MAX_USERS": ptttype.MAX_USERS, "MAX_ACTIVE": ptttype.MAX_ACTIVE, "USHM_SIZE": ptttype.USHM_SIZE,
	"MAX_BOARD": ptttype.MAX_BOARD, "HASH_BITS": ptttype.HASH_BITS, "MAX_FRIEND": ptttype.MAX_FRIEND,
	"MAX_REJECT": ptttype.MAX_REJECT, "MAX_MSGS": ptttype.MAX_MSGS, "MAX_ADBANNER": ptttype.MAX_ADBANNER,
	"MAX_ADBANNER_SECTION": ptttype.MAX_ADBANNER_SECTION, "MAX_ADBANNER_HEIGHT": ptttype.MAX_ADBANNER_HEIGHT,
	"HOTBOARDCACHE": ptttype.HOTBOARDCACHE, "MAX_FROM": ptttype.MAX_FROM, "MAX_BMs": ptttype.MAX_BMs,
	"SORT_BY_MAX": uint64(ptttype.SORT_BY_MAX), "BSORT_BY_MAX": uint64(ptttype.BSORT_BY_MAX),
	"TODAYISSZ": ptttype.TODAYISSZ, "STAT_MAX": uint64(ptttype.STAT_MAX), "IDLEN": ptttype.IDLEN,
	"BTLEN": ptttype.BTLEN, "TTLEN": ptttype.TTLEN,
}

var siteK = K{MAX_USERS: ptttype.MAX_USERS, MAX_ACTIVE: ptttype.MAX_ACTIVE, MAX_BOARD: ptttype.MAX_BOARD,
	HASH_BITS: ptttype.HASH_BITS, MAX_FRIEND: ptttype.MAX_FRIEND, MAX_REJECT: ptttype.MAX_REJECT,
	MAX_MSGS: ptttype.MAX_MSGS, MAX_ADBANNER: ptttype.MAX_ADBANNER, MAX_ADBANNER_SECTION: ptttype.MAX_ADBANNER_SECTION,
	MAX_ADBANNER_HEIGHT: ptttype.MAX_ADBANNER_HEIGHT, HOTBOARDCACHE: ptttype.HOTBOARDCACHE, MAX_FROM: ptttype.MAX_FROM}

// ---- reflection helpers -------------------------------------------------------------

// binSize: the number of bytes encoding/binary reads/writes for a value of type t.
func binSize(t reflect.Type) int {
	return binary.Size(reflect.New(t).Interface())
}

// packedOffsets: where encoding/binary puts each top-level field (a walk over binary.Size of the fields).
func packedOffsets(t reflect.Type) []int {
	out := make([]int, t.NumField())
	off := 0
	for i := 0; i < t.NumField(); i++ {
		out[i] = off
		off += binSize(t.Field(i).Type)
	}
	return out
}

func encodeValue(v reflect.Value) []byte {
	var b bytes.Buffer
	if err := binary.Write(&b, binary.LittleEndian, v.Interface()); err != nil {
		panic(err)
	}
	return b.Bytes()
}

// canonBools forces the bytes of bool leaves of an image to 0/1 (encoding/binary reads any non-zero byte as
// true and writes true back as 1, which is not what the property is about).
func canonBools(t reflect.Type, img []byte, base int, packed bool) {
	switch t.Kind() {
	case reflect.Bool:
		if base < len(img) {
			img[base] &= 1
		}
	case reflect.Array:
		es := int(t.Elem().Size())
		if packed {
			es = binSize(t.Elem())
		}
		if !hasBool(t.Elem()) {
			return
		}
		for i := 0; i < t.Len(); i++ {
			canonBools(t.Elem(), img, base+i*es, packed)
		}
	case reflect.Struct:
		po := packedOffsets(t)
		for i := 0; i < t.NumField(); i++ {
			o := int(t.Field(i).Offset)
			if packed {
				o = po[i]
			}
			canonBools(t.Field(i).Type, img, base+o, packed)
		}
	}
}

func hasBool(t reflect.Type) bool {
	switch t.Kind() {
	case reflect.Bool:
		return true
	case reflect.Array:
		return hasBool(t.Elem())
	case reflect.Struct:
		for i := 0; i < t.NumField(); i++ {
			if hasBool(t.Field(i).Type) {
				return true
			}
		}
	}
	return false
}

// ---- environment -----------------------------------------------------------------------

var (
	run *hx.Run
	env *bbsenv.Env
)

func passwdPath() string { return ptttype.FN_PASSWD }

func putFile(path string, b []byte) {
	if err := os.WriteFile(path, b, 0o600); err != nil {
		panic(err)
	}
}

func getFile(path string) []byte {
	b, err := os.ReadFile(path)
	if err != nil {
		panic(err)
	}
	return b
}

var level2User = func() *ptttype.UserID_t {
	u := &ptttype.UserID_t{}
	copy(u[:], "verifC01")
	return u
}()

func passwd2Path() string {
	return filepath.Join(env.Home, "home", "v", "verifC01", ptttype.FN_PASSWD2)
}

// ---- executing one op on the real code ---------------------------------------------

type result struct {
	line  string // the op line as sent to the model (lvl2 fills in the observed time stamp)
	out   string
	label string
	// what P-hat needs
	fails []fail
}

type fail struct{ key, what string }

func errOr(err error, f func() string) string {
	if err != nil {
		return "ERR"
	}
	return f()
}

func atoiStrict(s string) (int64, bool) {
	if s == "" || strings.HasPrefix(s, "+") {
		return 0, false
	}
	neg := strings.HasPrefix(s, "-")
	d := strings.TrimPrefix(s, "-")
	if d == "" {
		return 0, false
	}
	for _, c := range d {
		if c < '0' || c > '9' {
			return 0, false
		}
	}
	if len(d) > 18 {
		return 0, false
	}
	v, _ := strconv.ParseInt(d, 10, 64)
	if neg {
		v = -v
	}
	return v, true
}

func natStrict(s string) (int, bool) {
	v, ok := atoiStrict(s)
	if !ok || v < 0 || strings.HasPrefix(s, "-") {
		return 0, false
	}
	return int(v), true
}

func unhex(s string) ([]byte, bool) {
	if s == "-" {
		return []byte{}, true
	}
	if len(s)%2 != 0 || s == "" {
		return nil, false
	}
	for _, c := range s {
		if !((c >= '0' && c <= '9') || (c >= 'a' && c <= 'f') || (c >= 'A' && c <= 'F')) {
			return nil, false
		}
	}
	return hx.UnHex(strings.ToLower(s)), true
}

func bad(line string) result { return result{line: line, out: "bad-op", label: "bad-op"} }

func exec(line string) (res result) {
	ws := strings.Fields(line)
	if len(ws) < 2 || ws[1] != cfgName {
		return bad(line)
	}
	op, rest := ws[0], ws[2:]
	res.line = line
	switch {
	case op == "size" && len(rest) == 1:
		return execSize(line, rest[0])
	case op == "const" && len(rest) == 1:
		v, ok := compiledConsts[rest[0]]
		if !ok {
			return result{line: line, out: "none", label: "const:none"}
		}
		res.out, res.label = fmt.Sprint(v), "const"
		for _, t := range recTypes {
			if t.szName == rest[0] {
				if fs := frozenSize(t.name, siteK); fs != int(v) {
					res.fails = append(res.fails, fail{"layout:" + t.name + ".size",
						fmt.Sprintf("%s = %d but the frozen pttbbs size of %s is %d", rest[0], v, t.name, fs)})
				}
			}
		}
		return res
	case op == "field" && len(rest) == 2:
		return execField(line, rest[0], rest[1])
	case op == "probe" && len(rest) == 1:
		return execProbe(line, rest[0])
	case op == "upd" && len(rest) == 4:
		return execUpd(line, rest[0], rest[1], rest[2], rest[3])
	case op == "updrec" && len(rest) == 3:
		return execUpdRec(line, rest[0], rest[1], rest[2])
	case op == "offconst" && len(rest) == 1:
		return execOffConst(line, rest[0])
	case op == "hist" && len(rest) >= 1:
		return execHist(line, ws)
	case op == "newbrd" && len(rest) == 3:
		return execNewBrd(line, ws)
	case op == "favfile" && len(rest) == 5:
		return execFavFile(line, rest)
	case op == "qry" && len(rest) == 3:
		return execQry(line, rest[0], rest[1], rest[2])
	case op == "qryrec" && len(rest) == 2:
		return execQry(line, "cmbbs.PasswdQuery", rest[0], rest[1])
	case op == "lvl2" && len(rest) == 5:
		return execLvl2(ws)
	case op == "getlvl2" && len(rest) == 1:
		return execGetLvl2(line, rest[0])
	case op == "multi" && len(rest) == 3:
		return execMulti(line, rest[0], rest[1], rest[2])
	case (op == "xread" || op == "xover") && len(rest) == 3:
		return execXRead(line, op, rest[0], rest[1], rest[2])
	case op == "xwrite" && len(rest) == 4:
		return execXWrite(line, rest[0], rest[1], rest[2], rest[3])
	}
	return bad(line)
}

// multi: the union `multi` of the article header (fileheader_t): SetMoney / SetAnonUID store a 32-bit value in its
// first four bytes, Money / AnonUID read it back.  P-hat, from the frozen C layout (`int money; int anon_uid;` at the
// member's offset, little-endian two's complement, the value as it is): the serialized record carries exactly that
// image at the frozen offset of `multi`, nothing else of the record changes, and the getter returns the value.
func execMulti(line, kind, pres, vals string) (res result) {
	res.line = line
	pre, ok := unhex(pres)
	v, ok2 := atoiStrict(vals)
	if !ok || !ok2 || (kind != "money" && kind != "anon") || len(pre) != 4 || v < -2147483648 || v > 2147483647 {
		return bad(line)
	}
	f := &ptttype.FileHeaderRaw{}
	copy(f.Multi[:], pre)
	before := encodeValue(reflect.ValueOf(f).Elem())
	var got int32
	if kind == "money" {
		_ = f.SetMoney(int32(v))
		got = f.Money()
	} else {
		_ = f.SetAnonUID(ptttype.UID(v))
		got = f.AnonUID()
	}
	after := encodeValue(reflect.ValueOf(f).Elem())
	fp, okf := frozenFieldOf("FileHeaderRaw", "Multi")
	if !okf || fp.off+4 > len(after) {
		res.out, res.label = "none", "multi:none"
		return res
	}
	res.out = fmt.Sprintf("%s get=%d", hx.Hex(after[fp.off:fp.off+fp.size]), got)
	res.label = "multi:" + kind
	u := uint32(int32(v))
	want := []byte{byte(u), byte(u >> 8), byte(u >> 16), byte(u >> 24)}
	if !bytes.Equal(after[fp.off:fp.off+4], want) {
		res.fails = append(res.fails, fail{"layout:FileHeaderRaw.multi." + kind, fmt.Sprintf("Set(%d) stores % x at offset %d of the record; pttbbs reads the int % x there", v, after[fp.off:fp.off+4], fp.off, want)})
	}
	if int64(got) != v {
		res.fails = append(res.fails, fail{"layout:FileHeaderRaw.multi." + kind, fmt.Sprintf("Set(%d) then Get = %d", v, got)})
	}
	for i := range after {
		if (i < fp.off || i >= fp.off+4) && after[i] != before[i] {
			res.fails = append(res.fails, fail{"layout:FileHeaderRaw.multi." + kind, fmt.Sprintf("Set(%d) changed byte %d of the record (outside the union's first four bytes)", v, i)})
			break
		}
	}
	return res
}

// size: unsafe.Sizeof / binary.Size / alignment of the compiled type.
func execSize(line, tn string) (res result) {
	res.line = line
	t := findType(tn)
	if t == nil {
		return result{line: line, out: "none", label: "size:none"}
	}
	aligned, packed := int(t.rt.Size()), binSize(t.rt)
	res.out = fmt.Sprintf("aligned=%d packed=%d align=%d", aligned, packed, t.rt.Align())
	res.label = "size:" + t.kind
	// P-hat
	fz := frozen(tn, siteK)
	key := "layout:" + tn + ".size"
	if d, ok := documentedSize[tn]; ok && aligned != d {
		res.fails = append(res.fails, fail{key, fmt.Sprintf("unsafe.Sizeof(%s) = %d, documented pttbbs size %d", tn, aligned, d)})
	}
	if tn == "UserInfoRaw" && cfgName == "docker" && aligned != 3484 {
		res.fails = append(res.fails, fail{key, fmt.Sprintf("unsafe.Sizeof(UserInfoRaw) = %d under the production constants, pttbbs userinfo_t is 3484", aligned)})
	}
	if aligned != fz.size() {
		res.fails = append(res.fails, fail{key, fmt.Sprintf("unsafe.Sizeof(%s) = %d, frozen C sizeof = %d", tn, aligned, fz.size())})
	}
	switch t.kind {
	case "disk":
		if packed != aligned {
			res.fails = append(res.fails, fail{key, fmt.Sprintf("%s: binary.Size = %d but the record stride unsafe.Sizeof = %d", tn, packed, aligned)})
		}
	case "fav":
		if packed > int(t.sz) || int(t.sz) != fz.size() {
			res.fails = append(res.fails, fail{key, fmt.Sprintf("%s: binary.Size = %d, on-disk size %s = %d, C sizeof = %d", tn, packed, t.szName, t.sz, fz.size())})
		}
	}
	if t.szName != "" && int(t.sz) != aligned {
		res.fails = append(res.fails, fail{key, fmt.Sprintf("%s = %d differs from unsafe.Sizeof(%s) = %d", t.szName, t.sz, tn, aligned)})
	}
	// same field list as the frozen struct (names, order)
	ff := fz.fields()
	for i := 0; i < t.rt.NumField() || i < len(ff); i++ {
		switch {
		case i >= len(ff):
			res.fails = append(res.fails, fail{"layout:" + tn + "." + t.rt.Field(i).Name, "field is not in the frozen pttbbs struct"})
		case i >= t.rt.NumField():
			res.fails = append(res.fails, fail{"layout:" + tn + "." + ff[i].name, "frozen pttbbs member has no Go field"})
		case ff[i].name != t.rt.Field(i).Name:
			res.fails = append(res.fails, fail{"layout:" + tn + "." + t.rt.Field(i).Name,
				fmt.Sprintf("field %d is %s, the frozen pttbbs struct has %s there", i, t.rt.Field(i).Name, ff[i].name)})
		}
	}
	return res
}

func frozenFieldOf(tn, field string) (fpos, bool) {
	for _, f := range frozen(tn, siteK).fields() {
		if f.name == field {
			return f, true
		}
	}
	return fpos{}, false
}

// field: reflect offset/size (= unsafe.Offsetof/Sizeof) and the encoding/binary offset/size of field i.
func execField(line, tn, is string) (res result) {
	res.line = line
	i, ok := natStrict(is)
	if !ok {
		return bad(line)
	}
	t := findType(tn)
	if t == nil || i >= t.rt.NumField() {
		return result{line: line, out: "none", label: "field:none"}
	}
	f := t.rt.Field(i)
	po := packedOffsets(t.rt)
	ps := binSize(f.Type)
	res.out = fmt.Sprintf("%s aligned=%d packed=%d asize=%d psize=%d", f.Name, f.Offset, po[i], f.Type.Size(), ps)
	res.label = "field:" + t.kind
	key := "layout:" + tn + "." + f.Name
	fz, ok := frozenFieldOf(tn, f.Name)
	if !ok {
		res.fails = append(res.fails, fail{key, "field is not in the frozen pttbbs struct"})
		return res
	}
	if int(f.Offset) != fz.off || int(f.Type.Size()) != fz.size {
		res.fails = append(res.fails, fail{key, fmt.Sprintf("in memory at %d (+%d), pttbbs has it at %d (+%d)", f.Offset, f.Type.Size(), fz.off, fz.size)})
	}
	if t.kind != "shm" && (po[i] != fz.off || ps != fz.size) {
		res.fails = append(res.fails, fail{key, fmt.Sprintf("serialised at %d (+%d), pttbbs has it at %d (+%d)", po[i], ps, fz.off, fz.size)})
	}
	if t.kind != "shm" && po[i] != int(f.Offset) {
		res.fails = append(res.fails, fail{key, fmt.Sprintf("serialised at %d but unsafe.Offsetof = %d (implicit padding)", po[i], f.Offset)})
	}
	return res
}

// ---- the partial accessors ---------------------------------------------------------------

var updFns = map[string]func(uid ptttype.UID, val []byte) error{
	"cmbbs.PasswdUpdatePasswd": func(uid ptttype.UID, val []byte) error {
		h := &ptttype.Passwd_t{}
		copy(h[:], val)
		return cmbbs.PasswdUpdatePasswd(uid, h)
	},
	"cmbbs.PasswdUpdateEmail": func(uid ptttype.UID, val []byte) error {
		e := &ptttype.Email_t{}
		copy(e[:], val)
		return cmbbs.PasswdUpdateEmail(uid, e)
	},
	"cache.passwdUpdateMoney": func(uid ptttype.UID, val []byte) error {
		_, err := cache.SetUMoney(uid, int32(binary.LittleEndian.Uint32(val)))
		return err
	},
}

var updArgLen = map[string]int{
	"cmbbs.PasswdUpdatePasswd": int(unsafe.Sizeof(ptttype.Passwd_t{})),
	"cmbbs.PasswdUpdateEmail":  int(unsafe.Sizeof(ptttype.Email_t{})),
	"cache.passwdUpdateMoney":  4,
}

var qryFns = map[string]func(uid ptttype.UID) ([]byte, error){
	"cmbbs.PasswdQueryPasswd": func(uid ptttype.UID) ([]byte, error) {
		h, err := cmbbs.PasswdQueryPasswd(uid)
		if err != nil {
			return nil, err
		}
		return h[:], nil
	},
	"cmbbs.PasswdQueryUserLevel": func(uid ptttype.UID) ([]byte, error) {
		l, err := cmbbs.PasswdQueryUserLevel(uid)
		if err != nil {
			return nil, err
		}
		b := make([]byte, 4)
		binary.LittleEndian.PutUint32(b, uint32(l))
		return b, nil
	},
	"cmbbs.PasswdQuery": func(uid ptttype.UID) ([]byte, error) {
		u, err := cmbbs.PasswdQuery(uid)
		if err != nil {
			return nil, err
		}
		return encodeValue(reflect.ValueOf(u).Elem()), nil
	},
}

func uidOf(s string) (ptttype.UID, bool) {
	v, ok := atoiStrict(s)
	if !ok || v < -(1<<31) || v > 1<<31-1 {
		return 0, false
	}
	return ptttype.UID(v), true
}

func slotClass(uid ptttype.UID, fileLen int) string {
	sz := int(ptttype.USEREC_RAW_SZ)
	n := fileLen / sz
	switch {
	case !uid.IsValid():
		return "invalid-uid"
	case int(uid)*sz <= fileLen && uid == 1 && n == 1:
		return "only"
	case int(uid)*sz <= fileLen && uid == 1:
		return "first"
	case int(uid)*sz <= fileLen && int(uid) == n:
		return "last"
	case int(uid)*sz <= fileLen:
		return "middle"
	case (int(uid)-1)*sz < fileLen:
		return "torn"
	default:
		return "beyond-eof"
	}
}

func execUpd(line, fn, uids, vals, files string) (res result) {
	res.line = line
	uid, ok1 := uidOf(uids)
	val, ok2 := unhex(vals)
	file, ok3 := unhex(files)
	if !ok1 || !ok2 || !ok3 {
		return bad(line)
	}
	f, known := updFns[fn]
	if !known || len(val) != updArgLen[fn] {
		// the model has no such partial update / the argument type fixes the length
		return result{line: line, out: "ERR", label: "upd:unknown-or-arglen"}
	}
	putFile(passwdPath(), file)
	err := f(uid, val)
	after := getFile(passwdPath())
	cls := slotClass(uid, len(file))
	res.label = "upd:" + fn + ":" + cls
	if err != nil {
		res.out = "ERR"
		if !bytes.Equal(after, file) {
			res.fails = append(res.fails, fail{"frame:" + fn, fmt.Sprintf("uid %d: the call failed (%v) but the file changed", uid, err)})
		}
		if uid.IsValid() {
			res.fails = append(res.fails, fail{"frame:" + fn, fmt.Sprintf("uid %d is valid but the call failed: %v", uid, err)})
		}
		return res
	}
	res.out = hx.Hex(after)
	// P-hat: exactly the field's bytes of exactly that user's record
	key := "frame:" + fn
	in := intended[fn]
	fz, _ := frozenFieldOf(in.typ, in.fields[0])
	stride := documentedSize[in.typ]
	lo := (int(uid)-1)*stride + fz.off
	hi := lo + fz.size
	if !uid.IsValid() {
		res.fails = append(res.fails, fail{key, fmt.Sprintf("uid %d is not a valid uid but the call succeeded", uid)})
		return res
	}
	wantLen := len(file)
	if hi > wantLen {
		wantLen = hi
	}
	if len(after) != wantLen {
		res.fails = append(res.fails, fail{key, fmt.Sprintf("uid %d: file length %d -> %d, expected %d", uid, len(file), len(after), wantLen)})
	}
	for i := 0; i < len(after); i++ {
		if i >= lo && i < hi {
			continue
		}
		var old byte
		if i < len(file) {
			old = file[i]
		}
		if after[i] != old {
			res.fails = append(res.fails, fail{key, fmt.Sprintf("uid %d: byte %d (record %d, offset %d) changed %02x -> %02x; only [%d,%d) (field %s) may change",
				uid, i, i/stride+1, i%stride, old, after[i], lo, hi, in.fields[0])})
			break
		}
	}
	if len(after) >= hi && !bytes.Equal(after[lo:hi], val) {
		res.fails = append(res.fails, fail{key, fmt.Sprintf("uid %d: field %s at [%d,%d) holds %x, written %x", uid, in.fields[0], lo, hi, after[lo:hi], val)})
	}
	// the whole-record reader sees the new value in that field
	if len(after) >= int(uid)*stride {
		u, err := cmbbs.PasswdQuery(uid)
		if err != nil {
			res.fails = append(res.fails, fail{key, fmt.Sprintf("uid %d: PasswdQuery after the update: %v", uid, err)})
		} else if got := encodeValue(reflect.ValueOf(u).Elem().FieldByName(in.fields[0])); !bytes.Equal(got, val) {
			res.fails = append(res.fails, fail{key, fmt.Sprintf("uid %d: PasswdQuery shows %s = %x after writing %x", uid, in.fields[0], got, val)})
		}
	}
	return res
}

func execQry(line, fn, uids, files string) (res result) {
	res.line = line
	uid, ok1 := uidOf(uids)
	file, ok2 := unhex(files)
	if !ok1 || !ok2 {
		return bad(line)
	}
	f, known := qryFns[fn]
	if !known {
		return result{line: line, out: "ERR", label: "qry:unknown"}
	}
	putFile(passwdPath(), file)
	got, err := f(uid)
	cls := slotClass(uid, len(file))
	res.label = "qry:" + fn + ":" + cls
	key := "frame:" + fn
	stride := documentedSize["UserecRaw"]
	if err != nil {
		res.out = "ERR"
		if uid.IsValid() && int(uid)*stride <= len(file) {
			res.fails = append(res.fails, fail{key, fmt.Sprintf("uid %d: the record is in the file but the call failed: %v", uid, err)})
		}
		return res
	}
	res.out = hx.Hex(got)
	if !uid.IsValid() {
		res.fails = append(res.fails, fail{key, fmt.Sprintf("uid %d is not a valid uid but the call succeeded", uid)})
		return res
	}
	lo, hi := (int(uid)-1)*stride, int(uid)*stride
	if fn != "cmbbs.PasswdQuery" {
		in := intended[fn]
		fz, _ := frozenFieldOf(in.typ, in.fields[0])
		lo, hi = lo+fz.off, lo+fz.off+fz.size
	}
	if hi > len(file) || !bytes.Equal(file[lo:hi], got) {
		res.fails = append(res.fails, fail{key, fmt.Sprintf("uid %d: returned %x, the pttbbs layout has the field at [%d,%d) of a %d-byte file", uid, got, lo, hi, len(file))})
	}
	if fn != "cmbbs.PasswdQuery" && int(uid)*stride <= len(file) {
		// partial reader = field of the whole-record reader
		u, err := cmbbs.PasswdQuery(uid)
		if err != nil {
			res.fails = append(res.fails, fail{key, fmt.Sprintf("uid %d: PasswdQuery failed: %v", uid, err)})
		} else if whole := encodeValue(reflect.ValueOf(u).Elem().FieldByName(intended[fn].fields[0])); !bytes.Equal(whole, got) {
			res.fails = append(res.fails, fail{key, fmt.Sprintf("uid %d: returned %x, PasswdQuery shows %x", uid, got, whole)})
		}
	}
	return res
}

// lvl2 <cfg> <ver> <perm> <0|1> <ts> <file|absent>: ver and ts are observations (the version constant the
// code writes into a new file, the time stamp it wrote); the harness fills them in after the call.
func execLvl2(ws []string) (res result) {
	line := strings.Join(ws, " ")
	res.line = line
	_, okv := natStrict(ws[2])
	perm, okp := natStrict(ws[3])
	_, okt := natStrict(ws[5])
	if !okv || !okp || !okt || (ws[4] != "0" && ws[4] != "1") || perm > 1<<32-1 {
		return bad(line)
	}
	var before []byte
	absent := ws[6] == "absent"
	if !absent {
		b, ok := unhex(ws[6])
		if !ok {
			return bad(line)
		}
		before = b
	}
	p := passwd2Path()
	_ = os.MkdirAll(filepath.Dir(p), 0o755)
	_ = os.Remove(p)
	if !absent {
		putFile(p, before)
	}
	err := cmbbs.PasswdUpdateUserLevel2(level2User, ptttype.PERM2(perm), ws[4] == "1")
	key := "frame:cmbbs.PasswdUpdateUserLevel2"
	cls := "present"
	switch {
	case absent:
		cls = "absent"
	case len(before) < 128:
		cls = "short"
	case len(before) > 128:
		cls = "long"
	}
	res.label = "lvl2:" + cls
	if err != nil {
		res.out = "ERR"
		if !absent && len(before) <= 128 {
			res.fails = append(res.fails, fail{key, fmt.Sprintf("a %d-byte .PASSWD2 was refused: %v", len(before), err)})
		}
		if !absent && !bytes.Equal(getFile(p), before) {
			res.fails = append(res.fails, fail{key, "the call failed but the file changed"})
		}
		return res
	}
	after := getFile(p)
	res.out = hx.Hex(after)
	// observed time stamp and version go into the op line for the model
	tsOff, _ := frozenFieldOf("Userec2Raw", "UpdateTS")
	lvOff, _ := frozenFieldOf("Userec2Raw", "UserLevel2")
	if len(after) >= tsOff.off+4 {
		ws[5] = fmt.Sprint(binary.LittleEndian.Uint32(after[tsOff.off:]))
	}
	ws[2] = fmt.Sprint(ptttype.PASSWD2_VERSION)
	res.line = strings.Join(ws, " ")
	// P-hat: the file is one 128-byte record; outside [4,12) it is the old content (zero-extended; a new file: version, zeros)
	base := make([]byte, 128)
	if absent {
		binary.LittleEndian.PutUint32(base, ptttype.PASSWD2_VERSION)
	} else {
		copy(base, before)
	}
	if len(after) != 128 {
		res.fails = append(res.fails, fail{key, fmt.Sprintf(".PASSWD2 is %d bytes after the call, the record is 128", len(after))})
		return res
	}
	for i := range after {
		if (i >= lvOff.off && i < lvOff.off+4) || (i >= tsOff.off && i < tsOff.off+4) {
			continue
		}
		if after[i] != base[i] {
			res.fails = append(res.fails, fail{key, fmt.Sprintf("byte %d changed %02x -> %02x; only UserLevel2 [4,8) and UpdateTS [8,12) may change", i, base[i], after[i])})
			break
		}
	}
	old := binary.LittleEndian.Uint32(base[lvOff.off:])
	want := old | uint32(perm)
	if ws[4] == "0" {
		want = old &^ uint32(perm)
	}
	if got := binary.LittleEndian.Uint32(after[lvOff.off:]); got != want {
		res.fails = append(res.fails, fail{key, fmt.Sprintf("level2 %08x, perm %08x set=%s: stored %08x, expected %08x", old, perm, ws[4], got, want)})
	}
	// whole-record reader and partial reader agree with the bytes
	if u2, err := cmbbs.PasswdGetUser2(level2User); err != nil || uint32(u2.UserLevel2) != want {
		res.fails = append(res.fails, fail{key, fmt.Sprintf("PasswdGetUser2 shows level2 %v (err %v), expected %08x", u2, err, want)})
	}
	if l2, err := cmbbs.PasswdGetUserLevel2(level2User); err != nil || uint32(l2) != want {
		res.fails = append(res.fails, fail{key, fmt.Sprintf("PasswdGetUserLevel2 returns %08x (err %v), expected %08x", uint32(l2), err, want)})
	}
	return res
}

func execGetLvl2(line, files string) (res result) {
	res.line = line
	file, ok := unhex(files)
	if !ok {
		return bad(line)
	}
	p := passwd2Path()
	_ = os.MkdirAll(filepath.Dir(p), 0o755)
	putFile(p, file)
	l2, err := cmbbs.PasswdGetUserLevel2(level2User)
	res.label = "getlvl2"
	if err != nil {
		res.out = "ERR"
		res.label = "getlvl2:ERR"
		if len(file) >= 8 {
			res.fails = append(res.fails, fail{"frame:cmbbs.PasswdGetUserLevel2", fmt.Sprintf("%d-byte file refused: %v", len(file), err)})
		}
		return res
	}
	b := make([]byte, 4)
	binary.LittleEndian.PutUint32(b, uint32(l2))
	res.out = hx.Hex(b)
	if len(file) < 8 || !bytes.Equal(file[4:8], b) {
		res.fails = append(res.fails, fail{"frame:cmbbs.PasswdGetUserLevel2", fmt.Sprintf("returned %x, pttbbs layout has the level at [4,8)", b)})
	}
	return res
}

// constants the source defines as unsafe.Offsetof(<var>.<Field>): the compiled value, and the member the
// name says it addresses (this association is the harness's own reading of the constant's name).
var offConsts = map[string]struct {
	typ, field string
	val        uintptr
}{
	"BOARD_HEADER_BRDNAME_OFFSET":     {"BoardHeaderRaw", "Brdname", ptttype.BOARD_HEADER_BRDNAME_OFFSET},
	"BOARD_HEADER_TITLE_OFFSET":       {"BoardHeaderRaw", "Title", ptttype.BOARD_HEADER_TITLE_OFFSET},
	"BOARD_HEADER_BRD_ATTR_OFFSET":    {"BoardHeaderRaw", "BrdAttr", ptttype.BOARD_HEADER_BRD_ATTR_OFFSET},
	"BOARD_HEADER_NEXT_OFFSET":        {"BoardHeaderRaw", "Next", ptttype.BOARD_HEADER_NEXT_OFFSET},
	"BOARD_HEADER_FIRST_CHILD_OFFSET": {"BoardHeaderRaw", "FirstChild", ptttype.BOARD_HEADER_FIRST_CHILD_OFFSET},
	"BOARD_HEADER_PARENT_OFFSET":      {"BoardHeaderRaw", "Parent", ptttype.BOARD_HEADER_PARENT_OFFSET},
	"BOARD_HEADER_CHILD_COUNT_OFFSET": {"BoardHeaderRaw", "ChildCount", ptttype.BOARD_HEADER_CHILD_COUNT_OFFSET},
	"BOARD_HEADER_BM_OFFSET":          {"BoardHeaderRaw", "BM", ptttype.BOARD_HEADER_BM_OFFSET},
	"BOARD_HEADER_NUSER_OFFSET":       {"BoardHeaderRaw", "NUser", ptttype.BOARD_HEADER_NUSER_OFFSET},
	"USER_INFO_USER_ID_OFFSET":        {"UserInfoRaw", "UserID", ptttype.USER_INFO_USER_ID_OFFSET},
	"USER_INFO_PID_OFFSET":            {"UserInfoRaw", "Pid", ptttype.USER_INFO_PID_OFFSET},
	"USER_INFO_MODE_OFFSET":           {"UserInfoRaw", "Mode", ptttype.USER_INFO_MODE_OFFSET},
}

func execOffConst(line, name string) (res result) {
	res.line = line
	oc, ok := offConsts[name]
	if !ok {
		return result{line: line, out: "none", label: "offconst:none"}
	}
	res.out = fmt.Sprintf("%s.%s=%d", oc.typ, oc.field, oc.val)
	res.label = "offconst"
	if fz, ok := frozenFieldOf(oc.typ, oc.field); !ok || fz.off != int(oc.val) {
		res.fails = append(res.fails, fail{"layout:" + oc.typ + "." + oc.field,
			fmt.Sprintf("%s = %d, pttbbs has %s at %d", name, oc.val, oc.field, fz.off)})
	}
	return res
}

// updrec: cmbbs.PasswdUpdate, the whole-record writer.
func execUpdRec(line, uids, recs, files string) (res result) {
	res.line = line
	uid, ok1 := uidOf(uids)
	rec, ok2 := unhex(recs)
	file, ok3 := unhex(files)
	if !ok1 || !ok2 || !ok3 {
		return bad(line)
	}
	cls := slotClass(uid, len(file))
	res.label = "updrec:" + cls
	key := "frame:cmbbs.PasswdUpdate"
	u := &ptttype.UserecRaw{}
	if len(rec) != binSize(reflect.TypeOf(*u)) {
		return result{line: line, out: "ERR", label: "updrec:reclen"}
	}
	if err := binary.Read(bytes.NewReader(rec), binary.LittleEndian, u); err != nil {
		panic(err)
	}
	putFile(passwdPath(), file)
	err := cmbbs.PasswdUpdate(uid, u)
	after := getFile(passwdPath())
	if err != nil {
		res.out = "ERR"
		if !bytes.Equal(after, file) || uid.IsValid() {
			res.fails = append(res.fails, fail{key, fmt.Sprintf("uid %d: call failed (%v); valid=%v, file changed=%v", uid, err, uid.IsValid(), !bytes.Equal(after, file))})
		}
		return res
	}
	res.out = hx.Hex(after)
	if !uid.IsValid() {
		res.fails = append(res.fails, fail{key, fmt.Sprintf("uid %d is not a valid uid but the call succeeded", uid)})
		return res
	}
	stride := documentedSize["UserecRaw"]
	lo, hi := (int(uid)-1)*stride, int(uid)*stride
	wantLen := len(file)
	if hi > wantLen {
		wantLen = hi
	}
	if len(after) != wantLen {
		res.fails = append(res.fails, fail{key, fmt.Sprintf("uid %d: file length %d -> %d, expected %d", uid, len(file), len(after), wantLen)})
		return res
	}
	for i := range after {
		var old byte
		if i < len(file) {
			old = file[i]
		}
		if (i >= lo && i < hi && after[i] != rec[i-lo]) || ((i < lo || i >= hi) && after[i] != old) {
			res.fails = append(res.fails, fail{key, fmt.Sprintf("uid %d: byte %d is %02x after the call; only record %d = [%d,%d) may change, to the record written", uid, i, after[i], uid, lo, hi)})
			break
		}
	}
	return res
}

// probe: black-box measurement of the stride and the field range an accessor uses.
func execProbe(line, fn string) (res result) {
	res.line = line
	res.label = "probe"
	stride := int(ptttype.USEREC_RAW_SZ)
	type rng struct{ off, n int }
	var rs []rng
	showStride := "-"
	switch {
	case updFns[fn] != nil:
		changed := func(uid ptttype.UID) (int, int) {
			putFile(passwdPath(), make([]byte, 3*stride))
			if err := updFns[fn](uid, bytes.Repeat([]byte{0xff}, updArgLen[fn])); err != nil {
				return -1, 0
			}
			after := getFile(passwdPath())
			lo, n := -1, 0
			for i, b := range after {
				if b != 0 {
					if lo < 0 {
						lo = i
					}
					n++
				}
			}
			return lo, n
		}
		o1, n1 := changed(1)
		o2, _ := changed(2)
		rs = append(rs, rng{o1, n1})
		showStride = fmt.Sprint(o2 - o1)
	case qryFns[fn] != nil:
		// byte i of the file encodes i in base 251 over two runs
		pos := func(uid ptttype.UID) (int, int) {
			a, b := make([]byte, 3*stride), make([]byte, 3*stride)
			for i := range a {
				a[i], b[i] = byte(i%251), byte(i/251%251)
			}
			putFile(passwdPath(), a)
			ga, err := qryFns[fn](uid)
			if err != nil {
				return -1, 0
			}
			putFile(passwdPath(), b)
			gb, _ := qryFns[fn](uid)
			return int(ga[0]) + 251*int(gb[0]), len(ga)
		}
		o1, n1 := pos(1)
		o2, _ := pos(2)
		if fn != "cmbbs.PasswdQuery" {
			rs = append(rs, rng{o1, n1})
		}
		showStride = fmt.Sprint(o2 - o1)
	case fn == "cmbbs.PasswdUpdateUserLevel2" || fn == "cmbbs.PasswdGetUserLevel2":
		p := passwd2Path()
		_ = os.MkdirAll(filepath.Dir(p), 0o755)
		touched := map[int]bool{}
		if fn == "cmbbs.PasswdGetUserLevel2" {
			a := make([]byte, 128)
			for i := range a {
				a[i] = byte(i)
			}
			putFile(p, a)
			l2, err := cmbbs.PasswdGetUserLevel2(level2User)
			if err == nil {
				o := int(uint32(l2) & 0xff)
				for i := 0; i < 4; i++ {
					touched[o+i] = true
				}
			}
		} else {
			for _, fill := range []byte{0x00, 0xff} {
				before := bytes.Repeat([]byte{fill}, 128)
				putFile(p, before)
				_ = cmbbs.PasswdUpdateUserLevel2(level2User, ptttype.PERM2(0xffffffff), fill == 0)
				after := getFile(p)
				for i := range after {
					if i >= len(before) || after[i] != before[i] {
						touched[i] = true
					}
				}
			}
		}
		var idx []int
		for i := range touched {
			idx = append(idx, i)
		}
		sort.Ints(idx)
		// 4-byte fields: split runs into words
		for k := 0; k < len(idx); {
			j := k
			for j+1 < len(idx) && idx[j+1] == idx[j]+1 && j+1-k < 4 {
				j++
			}
			rs = append(rs, rng{idx[k], j - k + 1})
			k = j + 1
		}
	default:
		return result{line: line, out: "none", label: "probe:none"}
	}
	parts := make([]string, len(rs))
	for i, r := range rs {
		parts[i] = fmt.Sprintf("%d+%d", r.off, r.n)
	}
	offs := strings.Join(parts, ",")
	if offs == "" {
		offs = "-"
	}
	res.out = fmt.Sprintf("stride=%s offs=%s", showStride, offs)
	// P-hat: the frozen stride and field
	if in, ok := intended[fn]; ok {
		seen := map[string]bool{}
		var want []string
		for _, f := range in.fields {
			fz, _ := frozenFieldOf(in.typ, f)
			s := fmt.Sprintf("%d+%d", fz.off, fz.size)
			if !seen[s] {
				seen[s] = true
				want = append(want, s)
			}
		}
		ws := "-"
		if in.stride != "" {
			ws = fmt.Sprint(documentedSize[in.typ])
		}
		wo := strings.Join(want, ",")
		if wo == "" {
			wo = "-"
		}
		if w := fmt.Sprintf("stride=%s offs=%s", ws, wo); w != res.out {
			res.fails = append(res.fails, fail{"seek:" + fn, fmt.Sprintf("measured %s, the pttbbs layout requires %s", res.out, w)})
		}
	}
	return res
}

// ---- whole-record images: C writes / Go reads, Go writes / C reads ------------------------

func execXRead(line, op, tn, is, imgs string) (res result) {
	res.line = line
	i, ok1 := natStrict(is)
	img, ok2 := unhex(imgs)
	t := findType(tn)
	if !ok1 || !ok2 || t == nil {
		return bad(line)
	}
	res.label = op + ":" + t.kind
	if i >= t.rt.NumField() {
		return result{line: line, out: "ERR", label: op + ":no-field"}
	}
	f := t.rt.Field(i)
	var got []byte
	if op == "xread" {
		v := reflect.New(t.rt)
		err := types.BinaryRead(bytes.NewReader(img), binary.LittleEndian, v.Interface())
		if err != nil {
			return result{line: line, out: "ERR", label: op + ":short"}
		}
		got = encodeValue(v.Elem().Field(i))
	} else {
		if len(img) < int(t.rt.Size()) {
			return result{line: line, out: "ERR", label: op + ":short"}
		}
		// overlay the struct on the bytes (what the code does with the shared-memory segment)
		buf := make([]byte, len(img)+8)
		base := uintptr(unsafe.Pointer(&buf[0]))
		pad := int((8 - base%8) % 8)
		copy(buf[pad:], img)
		v := reflect.NewAt(t.rt, unsafe.Pointer(&buf[pad])).Elem().Field(i)
		got = append([]byte{}, unsafe.Slice((*byte)(unsafe.Pointer(v.UnsafeAddr())), int(f.Type.Size()))...)
	}
	res.out = hx.Hex(got)
	key := "layout:" + tn + "." + f.Name
	fz, ok := frozenFieldOf(tn, f.Name)
	if !ok {
		res.fails = append(res.fails, fail{key, "field is not in the frozen pttbbs struct"})
		return res
	}
	if fz.off+fz.size > len(img) || !bytes.Equal(img[fz.off:fz.off+fz.size], got) {
		res.fails = append(res.fails, fail{key, fmt.Sprintf("a record written by pttbbs has %s at [%d,%d); the Go reader returned %x for it",
			f.Name, fz.off, fz.off+fz.size, got)})
	}
	return res
}

func execXWrite(line, tn, is, vals, totals string) (res result) {
	res.line = line
	i, ok1 := natStrict(is)
	val, ok2 := unhex(vals)
	total, ok3 := natStrict(totals)
	t := findType(tn)
	if !ok1 || !ok2 || !ok3 || t == nil {
		return bad(line)
	}
	res.label = "xwrite:" + t.kind
	if i >= t.rt.NumField() || len(val) != binSize(t.rt.Field(i).Type) {
		return result{line: line, out: "ERR", label: "xwrite:no-field-or-len"}
	}
	f := t.rt.Field(i)
	v := reflect.New(t.rt)
	if err := binary.Read(bytes.NewReader(val), binary.LittleEndian, v.Elem().Field(i).Addr().Interface()); err != nil {
		panic(err)
	}
	var b bytes.Buffer
	if err := types.BinWrite(&b, v.Interface(), uintptr(total)); err != nil {
		return result{line: line, out: "ERR", label: "xwrite:too-large"}
	}
	img := b.Bytes()
	res.out = hx.Hex(img)
	key := "layout:" + tn + "." + f.Name
	fz, ok := frozenFieldOf(tn, f.Name)
	if !ok {
		res.fails = append(res.fails, fail{key, "field is not in the frozen pttbbs struct"})
		return res
	}
	if total == int(t.sz) {
		if len(img) != frozenSize(tn, siteK) {
			res.fails = append(res.fails, fail{key, fmt.Sprintf("the record image is %d bytes, pttbbs reads records of %d", len(img), frozenSize(tn, siteK))})
		}
		for k := range img {
			in := k >= fz.off && k < fz.off+fz.size
			if (in && img[k] != val[k-fz.off]) || (!in && img[k] != 0) {
				res.fails = append(res.fails, fail{key, fmt.Sprintf("%s = %x written by the Go writer: byte %d of the image is %02x; pttbbs reads the field at [%d,%d)",
					f.Name, val, k, img[k], fz.off, fz.off+fz.size)})
				break
			}
		}
		if fz.off+fz.size > len(img) {
			res.fails = append(res.fails, fail{key, fmt.Sprintf("pttbbs reads %s at [%d,%d), the image has %d bytes", f.Name, fz.off, fz.off+fz.size, len(img))})
		}
	}
	return res
}

// ---- driver loop, generators ------------------------------------------------------------------

// -only conc: the race-detector pass drives the histories and the concurrent saves only.
var only = flag.String("only", "", "conc: only the hist and favfile ops")

var lastConcIdx = -1

func do(line string, nontrivial bool) result {
	isConc := strings.HasPrefix(line, "hist ") || strings.HasPrefix(line, "favfile ")
	if *only == "conc" && !isConc {
		return result{}
	}
	var r result
	out := hx.CallSync(func() string { r = exec(line); return r.out })
	if out == "PANIC" {
		r = result{line: line, out: "PANIC", label: "panic"}
		r.fails = append(r.fails, fail{"crash:" + strings.Fields(line + " ?")[0], hx.LastPanic})
	}
	i := run.Op(r.line, r.out, r.label, nontrivial)
	if strings.HasPrefix(r.label, "favfile:k=") {
		lastConcIdx = i
	}
	for _, f := range r.fails {
		run.Fail(i, f.key, f.what)
	}
	return r
}

func randImage(t *recType, n int, packed bool) []byte {
	img := run.R.Bytes(n, nil)
	canonBools(t.rt, img, 0, packed)
	return img
}

func randFieldValue(ft reflect.Type) []byte {
	n := binSize(ft)
	v := run.R.Bytes(n, nil)
	for i := range v {
		if v[i] == 0 {
			v[i] = 0xa5 // distinctive, non-zero: the rest of the image is zero
		}
	}
	canonBools(ft, v, 0, true)
	return v
}

func passwdImage(nrec, tail int) []byte {
	t := findType("UserecRaw")
	sz := int(ptttype.USEREC_RAW_SZ)
	img := make([]byte, 0, nrec*sz+tail)
	for i := 0; i < nrec; i++ {
		img = append(img, randImage(t, sz, true)...)
	}
	return append(img, run.R.Bytes(tail, nil)...)
}

func main() {
	run = hx.Start("C01")
	defer run.Finish()
	initTypes()
	var err error
	if realSHM {
		env, err = bbsenv.New(bbsenv.Options{})
	} else {
		env, err = bbsenv.New(bbsenv.Options{Fixture: "none", NoSHM: true})
	}
	if err != nil {
		fmt.Fprintln(os.Stderr, "bbsenv:", err)
		os.Exit(2)
	}
	if realSHM {
		defer env.Close()
	} else {
		// cache.SetUMoney mirrors the value into the segment: give it a private in-process one (no SysV object)
		cache.Shm = &cache.SHM{Shm: new(cache.SHMRaw)}
		defer func() { cache.Shm = nil; env.Close() }()
	}
	defer raceReport()
	run.Extra["config"] = cfgName
	run.Rule = "exhaustive over record types x fields (size/const/field ops; one image per field written by the Go writer and one read by the Go reader/overlay); partial updates and queries on random .PASSWDS images: 1..6 records, every slot incl. first/last, one and two records beyond EOF, torn tails, invalid uids (0, negative, MAX_USERS+1, int32 extremes), MAX_USERS itself (default config); .PASSWD2 absent/short/exact/long; malformed stream: unknown config/type/function, bad hex, bad arity, wrong argument length. nontrivial = reaches compiled code with a well-formed op"

	if run.Replay != "" {
		for _, l := range hx.ReplayOps(run.Replay) {
			ws := strings.Fields(l)
			if len(ws) >= 2 && (ws[1] == "default" || ws[1] == "docker") && ws[1] != cfgName {
				run.Note("replay op for configuration " + ws[1] + " skipped by the " + cfgName + " harness: " + ws[0])
				continue
			}
			do(l, true)
		}
		return
	}
	r := run.R
	c := cfgName

	// ---- layouts: every type, every field -------------------------------------------------
	names := make([]string, 0, len(compiledConsts))
	for k := range compiledConsts {
		names = append(names, k)
	}
	sort.Strings(names)
	for _, k := range names {
		do(fmt.Sprintf("const %s %s", c, k), true)
	}
	ocNames := make([]string, 0, len(offConsts))
	for k := range offConsts {
		ocNames = append(ocNames, k)
	}
	sort.Strings(ocNames)
	for _, k := range ocNames {
		do(fmt.Sprintf("offconst %s %s", c, k), true)
	}
	do(fmt.Sprintf("offconst %s NO_SUCH_OFFSET", c), false)

	// ---- the multi union of the article header: boundary values and random ones, both members --------------
	for _, kind := range []string{"money", "anon"} {
		for _, v := range []int64{0, 1, 2, 5, 255, 256, 65535, 65536, 16777216, 2147483647, -1, -2, -2147483648} {
			do(fmt.Sprintf("multi %s %s %s %d", c, kind, hx.Hex(r.Bytes(4, nil)), v), true)
		}
		for i := 0; i < 40; i++ {
			do(fmt.Sprintf("multi %s %s %s %d", c, kind, hx.Hex(r.Bytes(4, nil)), int64(int32(r.U64()))), true)
		}
	}
	do(fmt.Sprintf("multi %s vote 00000000 1", c), false)
	do(fmt.Sprintf("multi %s money 000000 1", c), false)
	do(fmt.Sprintf("multi %s anon 00000000 2147483648", c), false)
	for ti := range recTypes {
		t := &recTypes[ti]
		do(fmt.Sprintf("size %s %s", c, t.name), true)
		for i := 0; i < t.rt.NumField(); i++ {
			do(fmt.Sprintf("field %s %s %d", c, t.name, i), true)
		}
		do(fmt.Sprintf("field %s %s %d", c, t.name, t.rt.NumField()), false)
	}
	for _, fn := range []string{"cmbbs.PasswdQuery", "cmbbs.PasswdQueryPasswd", "cmbbs.PasswdQueryUserLevel",
		"cmbbs.PasswdUpdatePasswd", "cmbbs.PasswdUpdateEmail", "cache.passwdUpdateMoney",
		"cmbbs.PasswdGetUserLevel2", "cmbbs.PasswdUpdateUserLevel2"} {
		do(fmt.Sprintf("probe %s %s", c, fn), true)
	}

	// ---- images: Go writes / pttbbs reads, pttbbs writes / Go reads ---------------------
	rounds := 1
	if run.Thorough() {
		rounds = 12
	}
	for round := 0; round < rounds; round++ {
		for ti := range recTypes {
			t := &recTypes[ti]
			if t.name == "SHMRaw" {
				continue // 0.5 MB / 80 MB images: covered field by field by the `field` ops
			}
			for i := 0; i < t.rt.NumField(); i++ {
				ft := t.rt.Field(i).Type
				if t.kind != "shm" {
					total := int(t.sz)
					do(fmt.Sprintf("xwrite %s %s %d %s %d", c, t.name, i, hx.Hex(randFieldValue(ft)), total), true)
					do(fmt.Sprintf("xread %s %s %d %s", c, t.name, i, hx.Hex(randImage(t, int(t.sz), true))), true)
				} else {
					do(fmt.Sprintf("xover %s %s %d %s", c, t.name, i, hx.Hex(randImage(t, int(t.rt.Size()), false))), true)
				}
			}
		}
	}
	// short images, short totals
	for _, tn := range []string{"UserecRaw", "PostLog", "FavBoard", "MsgQueueRaw"} {
		t := findType(tn)
		do(fmt.Sprintf("xread %s %s 0 %s", c, tn, hx.Hex(r.Bytes(binSize(t.rt)-1, nil))), true)
		do(fmt.Sprintf("xover %s %s 0 %s", c, tn, hx.Hex(r.Bytes(int(t.rt.Size())-1, nil))), true)
		do(fmt.Sprintf("xwrite %s %s 0 %s %d", c, tn, hx.Hex(randFieldValue(t.rt.Field(0).Type)), binSize(t.rt)-1), true)
		do(fmt.Sprintf("xwrite %s %s 0 %s %d", c, tn, hx.Hex(randFieldValue(t.rt.Field(0).Type)), binSize(t.rt)+5), true)
		do(fmt.Sprintf("xwrite %s %s 0 %s %d", c, tn, hx.Hex(r.Bytes(binSize(t.rt.Field(0).Type)+1, nil)), int(t.sz)), true)
	}

	// ---- partial updates / queries on .PASSWDS images -------------------------------------
	updNames := []string{"cmbbs.PasswdUpdatePasswd", "cmbbs.PasswdUpdateEmail", "cache.passwdUpdateMoney"}
	qryNames := []string{"cmbbs.PasswdQueryPasswd", "cmbbs.PasswdQueryUserLevel"}
	maxRec := 4
	if run.Thorough() {
		maxRec = 6
	}
	invalid := []int64{0, -1, int64(ptttype.MAX_USERS) + 1, 1<<31 - 1, -(1 << 31)}
	for nrec := 1; nrec <= maxRec; nrec++ {
		for _, tail := range []int{0, 100} {
			if tail != 0 && nrec%2 == 0 && !run.Thorough() {
				continue
			}
			for uid := 1; uid <= nrec+2; uid++ {
				for _, fn := range updNames {
					do(fmt.Sprintf("upd %s %s %d %s %s", c, fn, uid, hx.Hex(r.Bytes(updArgLen[fn], nil)), hx.Hex(passwdImage(nrec, tail))), true)
				}
				for _, fn := range qryNames {
					do(fmt.Sprintf("qry %s %s %d %s", c, fn, uid, hx.Hex(passwdImage(nrec, tail))), true)
				}
				do(fmt.Sprintf("qryrec %s %d %s", c, uid, hx.Hex(passwdImage(nrec, tail))), true)
				do(fmt.Sprintf("updrec %s %d %s %s", c, uid, hx.Hex(passwdImage(1, 0)), hx.Hex(passwdImage(nrec, tail))), true)
			}
		}
		for _, uid := range invalid {
			fn := updNames[r.Intn(len(updNames))]
			do(fmt.Sprintf("upd %s %s %d %s %s", c, fn, uid, hx.Hex(r.Bytes(updArgLen[fn], nil)), hx.Hex(passwdImage(nrec, 0))), true)
			do(fmt.Sprintf("qry %s %s %d %s", c, qryNames[r.Intn(2)], uid, hx.Hex(passwdImage(nrec, 0))), true)
		}
	}
	// EOF inside the field, empty file
	for _, fn := range qryNames {
		in := intended[fn]
		fz, _ := frozenFieldOf(in.typ, in.fields[0])
		for _, l := range []int{0, fz.off, fz.off + 1, fz.off + fz.size - 1, fz.off + fz.size} {
			do(fmt.Sprintf("qry %s %s 1 %s", c, fn, hx.Hex(r.Bytes(l, nil))), true)
		}
	}
	for _, fn := range updNames {
		do(fmt.Sprintf("upd %s %s 1 %s -", c, fn, hx.Hex(r.Bytes(updArgLen[fn], nil))), true)
	}
	if ptttype.MAX_USERS <= 64 {
		// the last valid uid of the configuration, with its record present
		n := int(ptttype.MAX_USERS)
		for _, fn := range updNames {
			do(fmt.Sprintf("upd %s %s %d %s %s", c, fn, n, hx.Hex(r.Bytes(updArgLen[fn], nil)), hx.Hex(passwdImage(n, 0))), true)
		}
		do(fmt.Sprintf("qry %s %s %d %s", c, qryNames[0], n, hx.Hex(passwdImage(n, 0))), true)
	}
	nRand := 60
	if run.Thorough() {
		nRand = 6000
	}
	for k := 0; k < nRand; k++ {
		nrec := 1 + r.Intn(6)
		tail := 0
		if r.Intn(4) == 0 {
			tail = r.Intn(512)
		}
		uid := 1 + r.Intn(nrec+2)
		if r.Intn(3) != 0 {
			fn := updNames[r.Intn(len(updNames))]
			do(fmt.Sprintf("upd %s %s %d %s %s", c, fn, uid, hx.Hex(r.Bytes(updArgLen[fn], nil)), hx.Hex(passwdImage(nrec, tail))), true)
		} else {
			do(fmt.Sprintf("qry %s %s %d %s", c, qryNames[r.Intn(2)], uid, hx.Hex(passwdImage(nrec, tail))), true)
		}
	}

	// ---- .PASSWD2 ------------------------------------------------------------------------------
	nL2 := 12
	if run.Thorough() {
		nL2 = 600
	}
	for k := 0; k < nL2; k++ {
		perm := r.U64() & 0xffffffff
		if k%3 == 0 {
			perm = 1 << uint(r.Intn(32))
		}
		set := r.Intn(2)
		var file string
		switch k % 6 {
		case 0:
			file = "absent"
		case 1:
			file = hx.Hex(r.Bytes(r.Intn(128), nil))
		case 2:
			file = hx.Hex(r.Bytes(129+r.Intn(100), nil))
		case 3:
			file = "-"
		default:
			file = hx.Hex(r.Bytes(128, nil))
		}
		do(fmt.Sprintf("lvl2 %s 0 %d %d 0 %s", c, perm, set, file), true)
		do(fmt.Sprintf("getlvl2 %s %s", c, hx.Hex(r.Bytes([]int{0, 4, 7, 8, 12, 128}[k%6], nil))), true)
	}

	// ---- histories: a failed write, then further writes ------------------------------------------------
	failKinds := []string{"enc", "rdonly", "efbig"}
	if haveDevFull() {
		failKinds = append([]string{"post", "rec", "email", "passwd", "money"}, failKinds...)
	} else {
		run.Note("no /dev/full: the ENOSPC error paths are not driven")
	}
	plImage := func() []byte { return randImage(findType("PostLog"), 100, true) }
	follow := func(k int, nrec int) string {
		uid := 1 + r.Intn(nrec)
		switch k % 5 {
		case 0, 1, 2:
			fn := updNames[k%5]
			return fmt.Sprintf("U:%s:%d:%s", fn, uid, hx.Hex(r.Bytes(updArgLen[fn], nil)))
		case 3:
			return fmt.Sprintf("R:%d:%s", uid, hx.Hex(passwdImage(1, 0)))
		}
		return "A:" + hx.Hex(plImage())
	}
	hrounds := 1
	if run.Thorough() {
		hrounds = 8
	}
	for hr := 0; hr < hrounds; hr++ {
		for fi, fk := range failKinds {
			for k := 0; k < 5; k++ {
				nrec := 2 + r.Intn(3)
				// failed write, then one write of every kind; then a second write (must be unaffected as well)
				do(fmt.Sprintf("hist %s %s F:%s:%d %s %s", c, hx.Hex(passwdImage(nrec, 0)), fk, 1+r.Intn(nrec), follow(k, nrec), follow(k+1+fi, nrec)), true)
			}
		}
		// two failures in a row, a failure between two updates, no failure at all
		for k := 0; k < 5; k++ {
			nrec := 3
			f1, f2 := failKinds[r.Intn(len(failKinds))], failKinds[r.Intn(len(failKinds))]
			do(fmt.Sprintf("hist %s %s F:%s:1 F:%s:2 %s", c, hx.Hex(passwdImage(nrec, 0)), f1, f2, follow(k, nrec)), true)
			do(fmt.Sprintf("hist %s %s %s F:%s:3 %s A:%s", c, hx.Hex(passwdImage(nrec, 0)), follow(k+2, nrec), f1, follow(k, nrec), hx.Hex(plImage())), true)
			do(fmt.Sprintf("hist %s %s %s %s", c, hx.Hex(passwdImage(nrec, 0)), follow(k, nrec), follow(k+3, nrec)), true)
		}
	}
	do(fmt.Sprintf("hist %s %s", c, hx.Hex(passwdImage(1, 0))), true)
	do(fmt.Sprintf("hist %s %s F U:cmbbs.PasswdUpdateEmail:0:%s R:1:00 A:00", c, hx.Hex(passwdImage(1, 0)), strings.Repeat("11", 50)), true)

	// ---- .BRD: a new board re-uses a vacated slot (first / middle / last / two slots / none) -----------
	if realSHM {
		for _, vac := range [][]int{{3}, {12}, {1}, {4, 8}, {}, {7}, {11, 12}} {
			genNewBrd(vac)
		}
	}

	// ---- .fav: sequential images, then concurrent saves of different users ---------------------------
	for _, n := range []int{0, 1, 2, 5, 60} {
		do(fmt.Sprintf("favfile %s %d %d %d %d 1", c, fav.FAV_VERSION, n, r.Intn(1<<31), r.Intn(128)), true)
	}
	nStress := 3
	if run.Thorough() {
		nStress = 10
		stressBudget = 2500 * time.Millisecond
	}
	for k := 0; k < nStress; k++ {
		do(fmt.Sprintf("favfile %s %d %d %d %d %d", c, fav.FAV_VERSION, []int{60, 20, 90}[k%3], r.Intn(1<<31), r.Intn(128), []int{8, 4, 12}[k%3]), true)
	}

	// ---- malformed stream --------------------------------------------------------------------------
	other := "prod"
	for _, l := range []string{
		"", "size", "size " + c, "size " + other + " UserecRaw", "size " + c + " NoSuchType", "size " + c + " UserecRaw extra",
		"const " + c + " NO_SUCH_CONST", "field " + c + " UserecRaw x", "field " + c + " UserecRaw -1", "field " + c + " NoSuchType 0",
		"field " + c + " UserecRaw 9999", "probe " + c + " cmbbs.NoSuchFunction", "frobnicate " + c + " 1 2",
		"upd " + c + " cmbbs.PasswdUpdatePasswd 1 zz 00", "upd " + c + " cmbbs.PasswdUpdatePasswd 1 0102 0",
		"upd " + c + " cmbbs.PasswdUpdatePasswd one 0102 00", "upd " + c + " cmbbs.PasswdUpdatePasswd 1 0102 00",
		"upd " + c + " cmbbs.NoSuch 1 " + strings.Repeat("11", 14) + " 00", "upd " + c + " cmbbs.PasswdUpdateEmail 1 00 00 00",
		"qry " + c + " cmbbs.NoSuch 1 00", "qry " + c + " cmbbs.PasswdQueryPasswd 1 0g", "qry " + c + " cmbbs.PasswdQueryPasswd",
		"hist " + c, "hist " + c + " zz", "hist " + c + " 00 X:1", "hist " + c + " 00 U:cmbbs.PasswdUpdateEmail:1", "hist " + c + " 00 R:x:00", "hist " + c + " 00 A:0",
		"newbrd " + c + " 1 00", "newbrd " + c + " x 00 00", "newbrd " + c + " 0 00 00",
		"favfile " + c + " 3363 1 1 1", "favfile " + c + " 3363 x 1 1 1",
		"qryrec " + c + " 1", "updrec " + c + " 1 00 00", "updrec " + c + " 0 " + strings.Repeat("00", 512) + " 00", "updrec " + c + " 1 0 0",
		"lvl2 " + c + " 0 1 2 0 absent", "lvl2 " + c + " 0 x 1 0 absent", "lvl2 " + c + " 0 1 1 0 xyz",
		"getlvl2 " + c + " 0", "xread " + c + " NoSuchType 0 00", "xread " + c + " UserecRaw 0 0", "xread " + c + " UserecRaw 999 00",
		"xover " + c + " UserInfoRaw 999 00", "xwrite " + c + " UserecRaw 0 00000000", "xwrite " + c + " UserecRaw 999 00 512",
		"xwrite " + c + " NoSuchType 0 00 1", "xwrite " + c + " UserecRaw 0 00000000 -5",
	} {
		do(l, false)
	}
	for k := 0; k < 40; k++ {
		ops := []string{"size", "const", "field", "probe", "upd", "updrec", "offconst", "qry", "qryrec", "lvl2", "getlvl2", "xread", "xover", "xwrite", "nop"}
		n := r.Intn(6)
		ws := []string{ops[r.Intn(len(ops))], []string{c, c, c, other, ""}[r.Intn(5)]}
		for j := 0; j < n; j++ {
			ws = append(ws, []string{"UserecRaw", "0", "1", "-1", "00", "zz", "absent", "cmbbs.PasswdUpdatePasswd", "-", "512", "PostLog"}[r.Intn(11)])
		}
		do(strings.Join(ws, " "), false)
	}
}
