#!/usr/bin/env python3
"""
Frozen pttbbs record layouts (property C01), transcribed BY HAND from pttbbs include/pttstruct.h,
include/fav.h and c-pttbbs/shm_offset.c (C member order, C types, array bounds).

NOT run by ./check. It is the single place where the transcription lives; running it rewrites the two
committed copies
    lean/PttVerif/Spec/C01Frozen.lean   (used by the theorems `matches_frozen_*`)
    go/cmd/c01/frozen.go                (used by the Go property oracle P-hat)
so that the Lean specification and the Go oracle cannot drift apart.  Neither copy is derived from the
Go sources of /repo: if /repo changes, these stay what they are.

The pttbbs submodule is empty in this checkout (only c-pttbbs/shm_offset.c is present), so the member
lists below come from the upstream header as remembered/documented, cross-read against the C comments
the Go port kept beside each field, and anchored on the documented sizes
512 / 256 / 128 / 128 / 100 / 12 / 3484 / 100 (asserted at the bottom).

member = (GoName, C declaration, element size, alignment, count)   count may be a formula in the
site constants (MAX_USERS, ...); `packed` = the C struct carries __attribute__((packed)).
"""
import os, re, sys

C1 = ("char", 1)

def m(go, cdecl, elem, count=1, align=None):
    return (go, cdecl, elem, align if align is not None else elem, count)

TYPES = []

def T(go, c, packed, members, size_anchor=None, doc=""):
    TYPES.append({"go": go, "c": c, "packed": packed, "members": members, "anchor": size_anchor, "doc": doc})

# ---- userec_t : .PASSWDS, 512 bytes, PACKED ---------------------------------------------------------
T("UserecRaw", "userec_t", True, [
    m("Version", "uint32_t version", 4),
    m("UserID", "char userid[IDLEN+1]", 1, 13),
    m("RealName", "char realname[REALNAMESZ]", 1, 20),
    m("Nickname", "char nickname[NICKNAMESZ]", 1, 24),
    m("PasswdHash", "char passwd[PASSLEN]", 1, 14),
    m("Pad1", "char pad_1", 1),
    m("UFlag", "uint32_t uflag", 4),
    m("Unused1", "uint32_t _unused1", 4),
    m("UserLevel", "uint32_t userlevel", 4),
    m("NumLoginDays", "uint32_t numlogindays", 4),
    m("NumPosts", "uint32_t numposts", 4),
    m("FirstLogin", "time4_t firstlogin", 4),
    m("LastLogin", "time4_t lastlogin", 4),
    m("LastHost", "char lasthost[IPV4LEN+1]", 1, 16),
    m("Money", "int32_t money", 4),
    m("Unused2", "char _unused[4]", 1, 4),
    m("Email", "char email[EMAILSZ]", 1, 50),
    m("Address", "char address[ADDRESSSZ]", 1, 50),
    m("Justify", "char justify[REGLEN+1]", 1, 39),
    m("UnusedBirth", "uint8_t _unused_birth[3]", 1, 3),
    m("Over18", "uint8_t over_18", 1),
    m("PagerUIType", "uint8_t pager_ui_type", 1),
    m("Pager", "uint8_t pager", 1),
    m("Invisible", "uint8_t invisible", 1),
    m("Unused4", "char _unused4[2]", 1, 2),
    m("Exmailbox", "uint32_t exmailbox", 4),
    m("Unused5", "char _unused5[4]", 1, 4),
    m("Career", "char career[CAREERSZ]", 1, 40),
    m("UnusedPhone", "char _unused_phone[PHONESZ]", 1, 20),
    m("Unused6", "uint32_t _unused6", 4),
    m("Chkpad1", "char chkpad1[44]", 1, 44),
    m("Role", "uint32_t role", 4),
    m("LastSeen", "time4_t lastseen", 4),
    m("TimeSetAngel", "time4_t timesetangel", 4),
    m("TimePlayAngel", "time4_t timeplayangel", 4),
    m("LastSong", "time4_t lastsong", 4),
    m("LoginView", "uint32_t loginview", 4),
    m("Unused8", "uint8_t _unused8", 1),
    m("Pad2", "char pad_2", 1),
    m("VlCount", "uint16_t vl_count", 2),
    m("FiveWin", "uint16_t five_win", 2),
    m("FiveLose", "uint16_t five_lose", 2),
    m("FiveTie", "uint16_t five_tie", 2),
    m("ChcWin", "uint16_t chc_win", 2),
    m("ChcLose", "uint16_t chc_lose", 2),
    m("ChcTie", "uint16_t chc_tie", 2),
    m("Conn6Win", "uint16_t conn6_win", 2),
    m("Conn6Lose", "uint16_t conn6_lose", 2),
    m("Conn6Tie", "uint16_t conn6_tie", 2),
    m("UnusedMind", "char _unused_mind[2]", 1, 2),
    m("GoWin", "uint16_t go_win", 2),
    m("GoLose", "uint16_t go_lose", 2),
    m("GoTie", "uint16_t go_tie", 2),
    m("DarkWin", "uint16_t dark_win", 2),
    m("DarkLose", "uint16_t dark_lose", 2),
    m("UaVersion", "uint8_t ua_version", 1),
    m("Signature", "uint8_t signature", 1),
    m("Unused10", "uint8_t _unused10", 1),
    m("BadPost", "uint8_t badpost", 1),
    m("DarkTie", "uint16_t dark_tie", 2),
    m("MyAngel", "char myangel[IDLEN+1]", 1, 13),
    m("Pad3", "char pad_3", 1),
    m("ChessEloRating", "uint16_t chess_elo_rating", 2),
    m("WithMe", "uint32_t withme", 4),
    m("TimeRemoveBadPost", "time4_t timeremovebadpost", 4),
    m("TimeViolateLaw", "time4_t timeviolatelaw", 4),
    m("PadTail", "char pad_tail[28]", 1, 28),
], 512, ".PASSWDS record")

# ---- userec2 (go-pttbbs own .passwd2; no pttbbs counterpart: frozen from its documented 128 bytes) ----
T("Userec2Raw", "userec2 (go-pttbbs)", True, [
    m("Version", "uint32_t version", 4),
    m("UserLevel2", "uint32_t userlevel2", 4),
    m("UpdateTS", "time4_t update_ts", 4),
    m("PadTail", "char pad_tail[116]", 1, 116),
], 128, ".passwd2 record")

# ---- boardheader_t : .BRD, 256 bytes, PACKED ------------------------------------------------------------
T("BoardHeaderRaw", "boardheader_t", True, [
    m("Brdname", "char brdname[IDLEN+1]", 1, 13),
    m("Title", "char title[BTLEN+1]", 1, 49),
    m("BM", "char BM[IDLEN*3+3]", 1, 39),
    m("Pad1", "char pad1[3]", 1, 3),
    m("BrdAttr", "uint32_t brdattr", 4),
    m("ChessCountry", "char chesscountry", 1),
    m("VoteLimitPosts_", "uint8_t _vote_limit_posts", 1),
    m("VoteLimitLogins", "uint8_t vote_limit_logins", 1),
    m("Pad2_1", "uint8_t pad2_1[1]", 1, 1),
    m("BUpdate", "time4_t bupdate", 4),
    m("PostLimitPosts_", "uint8_t _post_limit_posts", 1),
    m("PostLimitLogins", "uint8_t post_limit_logins", 1),
    m("Pad2_2", "uint8_t pad2_2[1]", 1, 1),
    m("BVote", "uint8_t bvote", 1),
    m("VTime", "time4_t vtime", 4),
    m("Level", "uint32_t level", 4),
    m("PermReload", "time4_t perm_reload", 4),
    m("Gid", "int32_t gid", 4),
    m("Next", "int32_t next[2]", 4, 2),
    m("FirstChild", "int32_t firstchild[2]", 4, 2),
    m("Parent", "int32_t parent", 4),
    m("ChildCount", "int32_t childcount", 4),
    m("NUser", "int32_t nuser", 4),
    m("PostExpire", "int32_t postexpire", 4),
    m("EndGamble", "time4_t endgamble", 4),
    m("PostType", "char posttype[33]", 1, 33),
    m("PostTypeF", "char posttype_f", 1),
    m("FastRecommendPause", "uint8_t fastrecommend_pause", 1),
    m("VoteLimitBadpost", "uint8_t vote_limit_badpost", 1),
    m("PostLimitBadpost", "uint8_t post_limit_badpost", 1),
    m("Pad3", "char pad3[3]", 1, 3),
    m("SRexpire", "time4_t SRexpire", 4),
    m("Pad4", "char pad4[40]", 1, 40),
], 256, ".BRD record")

# ---- fileheader_t : .DIR, 128 bytes, PACKED ----------------------------------------------------------------
T("FileHeaderRaw", "fileheader_t", True, [
    m("Filename", "char filename[FNLEN]", 1, 28),
    m("Modified", "time4_t modified", 4),
    m("Pad", "char pad", 1),
    m("Recommend", "char recommend", 1),
    m("Owner", "char owner[IDLEN+2]", 1, 14),
    m("Date", "char date[6]", 1, 6),
    m("Title", "char title[TTLEN+1]", 1, 65),
    m("Pad2", "char pad2", 1),
    m("Multi", "union { int money; int anon_uid; struct vote_limits; struct refer; } multi", 1, 4),
    m("Filemode", "unsigned char filemode", 1),
    m("Pad3", "char pad3[3]", 1, 3),
], 128, ".DIR record")

# ---- postlog_t : .post, 100 bytes, natural alignment ------------------------------------------------------
# title is char[66] in C; the Go port has Title_t (65 bytes) followed by one explicit pad byte.
T("PostLog", "postlog_t", False, [
    m("Author", "char author[IDLEN+1]", 1, 13),
    m("Board", "char board[IDLEN+1]", 1, 13),
    m("Title", "char title[66] (first 65 bytes)", 1, 65),
    m("Pad", "char title[66] (last byte)", 1),
    m("TheDate", "time4_t date", 4),
    m("Number", "int number", 4),
], 100, ".post record")

# ---- fav_board_t : .fav board entry, sizeof 12 (9 bytes of members + 3 bytes tail padding) ----------
T("FavBoard", "fav_board_t", False, [
    m("Bid", "int32_t bid", 4),
    m("LastVisit", "time4_t lastvisit", 4),
    m("Attr", "char attr", 1),
], 12, ".fav board entry")

T("FavLine", "fav_line_t", False, [
    m("Lid", "int8_t lid", 1),
], 1, ".fav line entry")

T("Fav4Board", "fav4_board_t", False, [
    m("Bid", "int32_t bid", 4),
    m("LastVisit", "time4_t lastvisit", 4),
    m("Attr", "char attr", 1),
], 12, "version-4 .fav board entry")

# ---- msgque_t : 100 bytes, natural alignment -----------------------------------------------------------------
T("MsgQueueRaw", "msgque_t", False, [
    m("Pid", "pid_t pid", 4),
    m("UserID", "char userid[IDLEN+1]", 1, 13),
    m("LastCallIn", "char last_call_in[76]", 1, 76),
    m("MsgMode", "int msgmode", 4),
], 100, "shared-memory message")

# ---- userinfo_t : natural alignment; 3484 bytes with MAX_FRIEND 256, MAX_REJECT 32, MAX_MSGS 10 ---------
T("UserInfoRaw", "userinfo_t", False, [
    m("UID", "int uid", 4),
    m("Pid", "pid_t pid", 4),
    m("SockAddr", "int sockaddr", 4),
    m("UserLevel", "unsigned int userlevel", 4),
    m("UserID", "char userid[IDLEN+1]", 1, 13),
    m("Nickname", "char nickname[24]", 1, 24),
    m("From", "char from[27]", 1, 27),
    m("FromIP", "in_addr_t from_ip", 4),
    m("DarkWin", "unsigned short dark_win", 2),
    m("DarkLose", "unsigned short dark_lose", 2),
    m("Gap0", "char gap_0", 1),
    m("AngelPause", "unsigned char angelpause", 1),
    m("DarkTie", "unsigned short dark_tie", 2),
    m("FriendTotal", "int friendtotal", 4),
    m("NFriends", "short nFriends", 2),
    m("Unused3_", "short _unused3", 2),
    m("MyFriend", "int myfriend[MAX_FRIEND]", 4, "MAX_FRIEND"),
    m("Gap1", "char gap_1[4]", 1, 4),
    m("FriendOnline", "unsigned int friend_online[MAX_FRIEND]", 4, "MAX_FRIEND"),
    m("Gap2", "char gap_2[4]", 1, 4),
    m("Reject", "int reject[MAX_REJECT]", 4, "MAX_REJECT"),
    m("Gap3", "char gap_3[4]", 1, 4),
    m("MsgCount", "char msgcount", 1),
    m("Unused4_", "char _unused4[3]", 1, 3),
    m("Msgs", "msgque_t msgs[MAX_MSGS]", "sizeof:MsgQueueRaw", "MAX_MSGS", 4),
    m("Gap4", "char gap_4[sizeof(msgque_t)]", 1, "sizeof:MsgQueueRaw"),
    m("Birth", "char birth", 1),
    m("Active", "unsigned char active", 1),
    m("Invisible", "unsigned char invisible", 1),
    m("Mode", "unsigned char mode", 1),
    m("Pager", "unsigned char pager", 1),
    m("Unused5_", "char _unused5", 1),
    m("Conn6Win", "unsigned short conn6_win", 2),
    m("LastAct", "time4_t lastact", 4),
    m("Alerts", "char alerts", 1),
    m("UnusedMind_", "char _unused_mind", 1),
    m("Conn6Lose", "unsigned short conn6_lose", 2),
    m("UnusedMind2_", "char _unused_mind2", 1),
    m("Sig", "char sig", 1),
    m("Conn6Tie", "unsigned short conn6_tie", 2),
    m("DestUID", "int destuid", 4),
    m("DestUip", "int destuip", 4),
    m("SockActive", "unsigned char sockactive", 1),
    m("InChat", "unsigned char in_chat", 1),
    m("Chatid", "char chatid[11]", 1, 11),
    m("LockMode", "unsigned char lockmode", 1),
    m("Turn", "char turn", 1),
    m("Mateid", "char mateid[IDLEN+1]", 1, 13),
    m("Color", "char color", 1),
    m("FiveWin", "unsigned short five_win", 2),
    m("FiveLose", "unsigned short five_lose", 2),
    m("FiveTie", "unsigned short five_tie", 2),
    m("ChcWin", "unsigned short chc_win", 2),
    m("ChcLose", "unsigned short chc_lose", 2),
    m("ChcTie", "unsigned short chc_tie", 2),
    m("ChessEloRating", "unsigned short chess_elo_rating", 2),
    m("GoWin", "unsigned short go_win", 2),
    m("GoLose", "unsigned short go_lose", 2),
    m("GoTie", "unsigned short go_tie", 2),
    m("WithMe", "unsigned int withme", 4),
    m("BrcID", "unsigned int brc_id", 4),
    m("WBTime", "time4_t wbtime /* NOKILLWATERBALL */", 4),
], None, "shared-memory user slot")

# ---- SHM_t.GV2.e + the rest of the 512-int union --------------------------------------------------------------
T("shmGV2", "SHM_t.GV2 (union { int v[512]; struct e })", False, [
    m("DyMaxMctive", "int dymaxactive", 4),
    m("TooManyUsers", "int toomanyusers", 4),
    m("NoonLineUser", "int noonlineuser", 4),
    m("Now", "time4_t now", 4),
    m("NWelcomes", "int nWelcomes", 4),
    m("Shutdown", "int shutdown", 4),
    m("Dummy", "(rest of int v[512])", 4, 506),
], 2048, "shared-memory global variables")

# ---- SHM_t : member order and names as printed by c-pttbbs/shm_offset.c ---------------------------------------
T("SHMRaw", "SHM_t", False, [
    m("Version", "int version", 4),
    m("Size", "int size", 4),
    m("Userid", "char userid[MAX_USERS][IDLEN+1]", 13, "MAX_USERS", 1),
    m("Gap1", "char gap_1[IDLEN+1]", 1, 13),
    m("NextInHash", "int next_in_hash[MAX_USERS]", 4, "MAX_USERS"),
    m("Gap2", "char gap_2[sizeof(int)]", 1, 4),
    m("Money", "int money[MAX_USERS]", 4, "MAX_USERS"),
    m("Gap3", "char gap_3[sizeof(int)]", 1, 4),
    m("CooldownTime", "time4_t cooldowntime[MAX_USERS] /* USE_COOLDOWN */", 4, "MAX_USERS"),
    m("Gap4", "char gap_4[sizeof(int)]", 1, 4),
    m("HashHead", "int hash_head[1 << HASH_BITS]", 4, "POW2:HASH_BITS"),
    m("Gap5", "char gap_5[sizeof(int)]", 1, 4),
    m("Number", "int number", 4),
    m("Loaded", "int loaded", 4),
    m("UInfo", "userinfo_t uinfo[USHM_SIZE]", "sizeof:UserInfoRaw", "USHM_SIZE", 4),
    m("Gap6", "char gap_6[sizeof(userinfo_t)]", 1, "sizeof:UserInfoRaw"),
    m("Sorted", "int sorted[2][9][USHM_SIZE]", 4, "2 * 9 * USHM_SIZE"),
    m("Gap7", "char gap_7[sizeof(int)]", 1, 4),
    m("CurrSorted", "int currsorted", 4),
    m("UTMPUptime", "time4_t UTMPuptime", 4),
    m("UTMPNumber", "int UTMPnumber", 4),
    m("UTMPNeedSort", "char UTMPneedsort", 1),
    m("UTMPBusyState", "char UTMPbusystate", 1),
    m("Gap8", "char gap_8[sizeof(int)]", 1, 4),
    m("BMCache", "int BMcache[MAX_BOARD][MAX_BMs]", 4, "MAX_BOARD * 4"),
    m("Gap9", "char gap_9[sizeof(int)]", 1, 4),
    m("BCache", "boardheader_t bcache[MAX_BOARD]", "sizeof:BoardHeaderRaw", "MAX_BOARD", 1),
    m("Gap10", "char gap_10[sizeof(int)]", 1, 4),
    m("BSorted", "int bsorted[2][MAX_BOARD]", 4, "2 * MAX_BOARD"),
    m("Gap11", "char gap_11[sizeof(int)]", 1, 4),
    m("NHOTs", "unsigned char nHOTs /* HOTBOARDCACHE */", 1),
    m("HBcache", "int HBcache[HOTBOARDCACHE]", 4, "HOTBOARDCACHE"),
    m("Gap12", "char gap_12[sizeof(int)]", 1, 4),
    m("BusyStateB", "time4_t busystate_b[MAX_BOARD]", 4, "MAX_BOARD"),
    m("Gap13", "char gap_13[sizeof(int)]", 1, 4),
    m("Total", "int total[MAX_BOARD]", 4, "MAX_BOARD"),
    m("Gap14", "char gap_14[sizeof(int)]", 1, 4),
    m("NBottom", "unsigned char n_bottom[MAX_BOARD]", 1, "MAX_BOARD"),
    m("Gap15", "char gap_15[sizeof(int)]", 1, 4),
    m("Hbfl", "int hbfl[MAX_BOARD][MAX_FRIEND+1]", 4, "MAX_BOARD * (MAX_FRIEND + 1)"),
    m("Gap16", "char gap_16[sizeof(int)]", 1, 4),
    m("LastPostTime", "time4_t lastposttime[MAX_BOARD]", 4, "MAX_BOARD"),
    m("Gap17", "char gap_17[sizeof(int)]", 1, 4),
    m("BUptime", "time4_t Buptime", 4),
    m("BTouchTime", "time4_t Btouchtime", 4),
    m("BNumber", "int Bnumber", 4),
    m("BBusyState", "int Bbusystate", 4),
    m("CloseVoteTime", "time4_t close_vote_time", 4),
    m("Notes", "char notes[MAX_ADBANNER][256*MAX_ADBANNER_HEIGHT]", 1, "MAX_ADBANNER * (256 * MAX_ADBANNER_HEIGHT)"),
    m("Gap18", "char gap_18[sizeof(int)]", 1, 4),
    m("TodayIs", "char today_is[20]", 1, 20),
    m("NeverUsedNNotes_", "int __never_used__n_notes[MAX_ADBANNER_SECTION]", 4, "MAX_ADBANNER_SECTION"),
    m("Gap19", "char gap_19[sizeof(int)]", 1, 4),
    m("NeverUsedNextRefresh_", "int __never_used__next_refresh[MAX_ADBANNER_SECTION]", 4, "MAX_ADBANNER_SECTION"),
    m("Gap20", "char gap_20[sizeof(int)]", 1, 4),
    m("LoginMsg", "msgque_t loginmsg", "sizeof:MsgQueueRaw", 1, 4),
    m("LastFilm", "int last_film", 4),
    m("LastUsong", "int last_usong", 4),
    m("PUptime", "time4_t Puptime", 4),
    m("PTouchTime", "time4_t Ptouchtime", 4),
    m("PBusyState", "int Pbusystate", 4),
    m("GV2", "union { int v[512]; struct e; } GV2", "sizeof:shmGV2", 1, 4),
    m("Statistic", "unsigned int statistic[STAT_MAX]", 4, 512),
    m("DeprecatedHomeIp_", "unsigned int _deprecated_home_ip[MAX_FROM]", 4, "MAX_FROM"),
    m("DeprecatedHomeMask_", "unsigned int _deprecated_home_mask[MAX_FROM]", 4, "MAX_FROM"),
    m("DeprecatedHomeDesc_", "char _deprecated_home_desc[MAX_FROM][32]", 32, "MAX_FROM", 1),
    m("DeprecatedHomeNum_", "int _deprecated_home_num", 4),
    m("MaxUser", "int max_user", 4),
    m("MaxTime", "time4_t max_time", 4),
    m("FUptime", "time4_t Fuptime", 4),
    m("FTouchTime", "time4_t Ftouchtime", 4),
    m("FBusyState", "int Fbusystate", 4),
], None, "the shared-memory segment")

KNAMES = ["MAX_USERS", "MAX_ACTIVE", "MAX_BOARD", "HASH_BITS", "MAX_FRIEND", "MAX_REJECT", "MAX_MSGS", "MAX_ADBANNER",
          "MAX_ADBANNER_SECTION", "MAX_ADBANNER_HEIGHT", "HOTBOARDCACHE", "MAX_FROM"]

# partial updates: function -> (record type, record-size constant or None, fields it may write/read)
INTENDED = [
    ("cmbbs.PasswdQuery", "UserecRaw", "USEREC_RAW_SZ", []),
    ("cmbbs.PasswdUpdate", "UserecRaw", "USEREC_RAW_SZ", []),
    ("cmbbs.PasswdQueryPasswd", "UserecRaw", "USEREC_RAW_SZ", ["PasswdHash"]),
    ("cmbbs.PasswdQueryUserLevel", "UserecRaw", "USEREC_RAW_SZ", ["UserLevel"]),
    ("cmbbs.PasswdUpdatePasswd", "UserecRaw", "USEREC_RAW_SZ", ["PasswdHash"]),
    ("cmbbs.PasswdUpdateEmail", "UserecRaw", "USEREC_RAW_SZ", ["Email"]),
    ("cache.passwdUpdateMoney", "UserecRaw", "USEREC_RAW_SZ", ["Money"]),
    ("cmbbs.PasswdGetUserLevel2", "Userec2Raw", None, ["UserLevel2"]),
    ("cmbbs.PasswdUpdateUserLevel2", "Userec2Raw", None, ["UserLevel2", "UserLevel2", "UpdateTS"]),
]


def expr(e, lang):
    """count / elem expression -> Lean or Go source."""
    if isinstance(e, int):
        return str(e)
    if e.startswith("sizeof:"):
        t = e[7:]
        return "(sizeOf (%s k))" % lean_name(t) if lang == "lean" else 'frozenSize("%s", k)' % t
    if e.startswith("POW2:"):
        n = e[5:]
        return "(2 ^ k.%s)" % n if lang == "lean" else "(1 << uint(k.%s))" % n

    def sub(mo):
        w = mo.group(0)
        if w == "USHM_SIZE":
            return "(k.MAX_ACTIVE * 41 / 40)"
        return "k." + w if w in KNAMES else w
    return "(" + re.sub(r"[A-Z_][A-Z_0-9]*", sub, e) + ")"


def lean_name(go):
    return {"UserecRaw": "userec_t", "Userec2Raw": "userec2_t", "BoardHeaderRaw": "boardheader_t", "FileHeaderRaw": "fileheader_t",
            "PostLog": "postlog_t", "FavBoard": "fav_board_t", "FavLine": "fav_line_t", "Fav4Board": "fav4_board_t",
            "MsgQueueRaw": "msgque_t", "UserInfoRaw": "userinfo_t", "shmGV2": "shm_gv2_t", "SHMRaw": "SHM_t"}[go]


LEAN_HEAD = """/-
C01 — frozen pttbbs layouts (specification; HAND-WRITTEN, never regenerated from /repo).

Transcribed from pttbbs `include/pttstruct.h`, `include/fav.h` and from the member list that
`c-pttbbs/shm_offset.c` prints.  The pttbbs submodule is empty in this checkout, so the member lists are the
upstream header as documented by the C comments the Go port keeps beside every field, anchored on the
documented record sizes 512 / 256 / 128 / 128 / 100 / 12 / 3484 / 100 (theorems `anchor_*` below).
The same table is kept for the Go property oracle in go/cmd/c01/frozen.go (both written by
go/cmd/c01/frozen_table.py, which is a transcription aid and is not run by ./check).

A member is (Go field name, C declaration, element size, alignment, element count).  `layout` computes
member offsets by the C rule: back to back for `__attribute__((packed))` structs, natural alignment otherwise.
Core Lean only.
-/
namespace PttVerif.C01.Frozen
set_option linter.unusedVariables false

structure Member where
  goName : String
  cDecl : String
  elem : Nat
  align : Nat
  count : Nat

/-- site constants the shared-memory structures are sized by (config.h / pttbbs.conf). -/
structure K where
%s

def alignUpC (x a : Nat) : Nat := (x + (a - 1)) / a * a

/-- (name, offset, size) of every member, starting at `off`. -/
def layout (packed : Bool) : List Member → Nat → List (String × Nat × Nat)
  | [], _ => []
  | m :: r, off =>
    let o := if packed then off else alignUpC off m.align
    (m.goName, o, m.elem * m.count) :: layout packed r (o + m.elem * m.count)

def endOf (packed : Bool) : List Member → Nat → Nat
  | [], off => off
  | m :: r, off => endOf packed r ((if packed then off else alignUpC off m.align) + m.elem * m.count)

def maxAlign : List Member → Nat
  | [] => 1
  | m :: r => max m.align (maxAlign r)

/-- a frozen struct: its members and whether the C declaration is packed. -/
structure CStruct where
  packed : Bool
  members : List Member

/-- `sizeof` by the C rule. -/
def sizeOf (s : CStruct) : Nat :=
  if s.packed then endOf true s.members 0 else alignUpC (endOf false s.members 0) (maxAlign s.members)

def fields (s : CStruct) : List (String × Nat × Nat) := layout s.packed s.members 0

"""


def write_lean(path):
    txt = LEAN_HEAD % "\n".join("  %s : Nat" % k for k in KNAMES)
    for t in TYPES:
        nm = lean_name(t["go"])
        txt += "/-- `%s` — %s%s. -/\n" % (t["c"], t["doc"], ", packed" if t["packed"] else ", natural alignment")
        txt += "def %s (k : K) : CStruct := ⟨%s, [\n" % (nm, "true" if t["packed"] else "false")
        rows = []
        for (go, cdecl, elem, align, count) in t["members"]:
            rows.append('  ⟨"%s", "%s", %s, %d, %s⟩' % (go, cdecl, expr(elem, "lean"), align, expr(count, "lean")))
        txt += ",\n".join(rows) + "]⟩\n\n"
    txt += "/-- the frozen struct of a Go record type. -/\ndef byGoName (k : K) : List (String × CStruct) := [\n"
    txt += ",\n".join('  ("%s", %s k)' % (t["go"], lean_name(t["go"])) for t in TYPES)
    txt += "]\n\n"
    txt += "/-- documented sizes. -/\n"
    txt += "def documentedSize : List (String × Nat) := [\n"
    txt += ",\n".join('  ("%s", %d)' % (t["go"], t["anchor"]) for t in TYPES if t["anchor"])
    txt += "]\n\n"
    txt += """/-- the production constants under which `userinfo_t` is documented to be 3484 bytes
(only MAX_FRIEND, MAX_REJECT and MAX_MSGS enter `userinfo_t`; the others are the docker values). -/
def prodK : K where
  MAX_USERS := 2000000
  MAX_ACTIVE := 512
  MAX_BOARD := 20000
  HASH_BITS := 16
  MAX_FRIEND := 256
  MAX_REJECT := 32
  MAX_MSGS := 10
  MAX_ADBANNER := 500
  MAX_ADBANNER_SECTION := 10
  MAX_ADBANNER_HEIGHT := 11
  HOTBOARDCACHE := 128
  MAX_FROM := 300

/-- which field(s) of which record each partial update is meant to touch (in the order the code seeks to them),
and the record-size constant it must use as stride (`none`: single-record file). -/
def intended : List (String × String × Option String × List String) := [
"""
    rows = []
    for fn, ty, st, fl in INTENDED:
        rows.append('  ("%s", "%s", %s, [%s])' % (fn, ty, ('some "%s"' % st) if st else "none", ", ".join('"%s"' % f for f in fl)))
    txt += ",\n".join(rows) + "]\n\n"
    txt += "/-! the transcription agrees with the documented sizes -/\n\n"
    for t in TYPES:
        if t["anchor"]:
            txt += "theorem anchor_%s : sizeOf (%s prodK) = %d := by decide +kernel\n" % (lean_name(t["go"]), lean_name(t["go"]), t["anchor"])
    txt += "theorem anchor_userinfo_t : sizeOf (userinfo_t prodK) = 3484 := by decide +kernel\n"
    txt += "\nend PttVerif.C01.Frozen\n"
    os.makedirs(os.path.dirname(path), exist_ok=True)
    open(path, "w").write(txt)
    print("wrote", path)


def main():
    root = os.path.dirname(os.path.abspath(__file__))
    verif = os.path.abspath(os.path.join(root, "..", "..", ".."))
    write_lean(os.path.join(verif, "lean", "PttVerif", "Spec", "C01Frozen.lean"))
    write_go(os.path.join(root, "frozen.go"))


def write_go(path):
    o = []
    o.append("""// Frozen pttbbs layouts for the Go property oracle (C01).  HAND-WRITTEN transcription of pttbbs
// include/pttstruct.h, include/fav.h and c-pttbbs/shm_offset.c — the same table as
// lean/PttVerif/Spec/C01Frozen.lean (both written by frozen_table.py, a transcription aid that ./check never
// runs).  Nothing here is derived from the Go sources of the repository under check.
package main

type member struct {
	goName string
	cDecl  string
	elem   int
	align  int
	count  int
}

type cstruct struct {
	packed  bool
	members []member
}

// K: the site constants the shared-memory structures are sized by.
type K struct {
""")
    o.append("\t" + ", ".join(KNAMES) + " int\n}\n\n")
    o.append("""func alignUpC(x, a int) int { return (x + a - 1) / a * a }

type fpos struct {
	name      string
	off, size int
}

func (s cstruct) fields() []fpos {
	var out []fpos
	off := 0
	for _, m := range s.members {
		o := off
		if !s.packed {
			o = alignUpC(off, m.align)
		}
		out = append(out, fpos{m.goName, o, m.elem * m.count})
		off = o + m.elem*m.count
	}
	return out
}

func (s cstruct) size() int {
	off, ma := 0, 1
	for _, m := range s.members {
		if !s.packed {
			off = alignUpC(off, m.align)
		}
		off += m.elem * m.count
		if m.align > ma {
			ma = m.align
		}
	}
	if s.packed {
		return off
	}
	return alignUpC(off, ma)
}

func frozenSize(name string, k K) int { return frozen(name, k).size() }

var frozenNames = []string{""")
    o.append(", ".join('"%s"' % t["go"] for t in TYPES))
    o.append("}\n\n")
    o.append("var documentedSize = map[string]int{")
    o.append(", ".join('"%s": %d' % (t["go"], t["anchor"]) for t in TYPES if t["anchor"]))
    o.append("}\n\n")
    o.append("// intended: which fields of which record each partial update is meant to touch, and the stride constant.\n")
    o.append("var intended = map[string]struct {\n\ttyp, stride string\n\tfields      []string\n}{\n")
    for fn, ty, st, fl in INTENDED:
        o.append('\t"%s": {"%s", "%s", []string{%s}},\n' % (fn, ty, st or "", ", ".join('"%s"' % f for f in fl)))
    o.append("}\n\n")
    o.append("func frozen(name string, k K) cstruct {\n\tswitch name {\n")
    for t in TYPES:
        o.append('\tcase "%s": // %s — %s\n\t\treturn cstruct{%s, []member{\n' % (t["go"], t["c"], t["doc"], "true" if t["packed"] else "false"))
        for (go, cdecl, elem, align, count) in t["members"]:
            o.append('\t\t\t{"%s", "%s", %s, %d, %s},\n' % (go, cdecl, expr(elem, "go"), align, expr(count, "go")))
        o.append("\t\t}}\n")
    o.append('\t}\n\tpanic("frozen: unknown type " + name)\n}\n')
    open(path, "w").write("".join(o))
    print("wrote", path)


if __name__ == "__main__":
    main()
