package main

// Histories and concurrency (C01, round 5):
//
//   hist <cfg> <.PASSWDS> <step>...     a failed record/field write (F:<kind>...) is an ERROR PATH; the writes
//                                       that follow it (U: single-field update, R: whole record, A: .post append)
//                                       must still write exactly the image of their own argument.
//   favfile <cfg> <ver> <n> <lv> <attr> <k>
//                                       k goroutines save the favorites of k different users at the same time
//                                       (FavRaw.Save -> WriteFavrec -> types.BinWrite per 12-byte entry); every
//                                       saved .fav must be the image of ITS user's in-memory entries.
//
// P-hat here is a byte-level reference kept in Go (frozen offsets, an independent little-endian encoder of the
// .fav image); it does not use the Lean model.

import (
	"bytes"
	"encoding/binary"
	"fmt"
	"os"
	"os/signal"
	"path/filepath"
	"reflect"
	"runtime"
	"strings"
	"sync"
	"syscall"
	"time"

	"github.com/Ptt-official-app/go-pttbbs/cache"
	"github.com/Ptt-official-app/go-pttbbs/cmbbs"
	"github.com/Ptt-official-app/go-pttbbs/cmsys"
	"github.com/Ptt-official-app/go-pttbbs/ptt"
	"github.com/Ptt-official-app/go-pttbbs/ptt/fav"
	"github.com/Ptt-official-app/go-pttbbs/ptttype"
	"github.com/Ptt-official-app/go-pttbbs/types"
	"verifharness/internal/hx"
)

func haveDevFull() bool {
	_, err := os.Stat("/dev/full")
	return err == nil
}

func postPath() string { return filepath.Join(env.Home, ".post") }

// withPasswdOnFullDevice runs f while .PASSWDS is a symlink to /dev/full (every write gives ENOSPC).
func withPasswdOnFullDevice(f func() error) error {
	p := passwdPath()
	aside := p + ".aside"
	if err := os.Rename(p, aside); err != nil {
		panic(err)
	}
	if err := os.Symlink("/dev/full", p); err != nil {
		panic(err)
	}
	defer func() {
		_ = os.Remove(p)
		if err := os.Rename(aside, p); err != nil {
			panic(err)
		}
	}()
	return f()
}

func someUserec() *ptttype.UserecRaw {
	u := &ptttype.UserecRaw{Version: 4194, Money: 0x5a5a5a5a}
	copy(u.UserID[:], "STALEUSER")
	for i := range u.Address {
		u.Address[i] = 0x5a
	}
	for i := range u.PadTail {
		u.PadTail[i] = 0x5b
	}
	return u
}

// failWrite provokes one failing record/field write through the real code. It returns the error of the call
// (nil = the failure could not be provoked).
func failWrite(kind string, uid ptttype.UID) error {
	if !uid.IsValid() {
		uid = 1
	}
	switch kind {
	case "post": // the .post log is on a full device: cmsys.AppendRecord -> BinaryWrite -> ENOSPC
		p := filepath.Join(env.Home, ".post.full")
		_ = os.Remove(p)
		if err := os.Symlink("/dev/full", p); err != nil {
			panic(err)
		}
		defer os.Remove(p)
		pl := &ptt.PostLog{TheDate: 1234567890, Number: 7}
		copy(pl.Author[:], "STALEAUTHOR")
		copy(pl.Board[:], "STALEBOARD")
		for i := range pl.Title {
			pl.Title[i] = 0x5c
		}
		_, err := cmsys.AppendRecord(p, pl, ptt.POSTLOG_SZ)
		return err
	case "rec":
		return withPasswdOnFullDevice(func() error { return cmbbs.PasswdUpdate(uid, someUserec()) })
	case "email":
		return withPasswdOnFullDevice(func() error {
			e := &ptttype.Email_t{}
			copy(e[:], bytes.Repeat([]byte{0x5d}, len(e)))
			return cmbbs.PasswdUpdateEmail(uid, e)
		})
	case "passwd":
		return withPasswdOnFullDevice(func() error {
			h := &ptttype.Passwd_t{}
			copy(h[:], bytes.Repeat([]byte{0x5e}, len(h)))
			return cmbbs.PasswdUpdatePasswd(uid, h)
		})
	case "money":
		return withPasswdOnFullDevice(func() error { _, err := cache.SetUMoney(uid, 0x5f5f5f5f); return err })
	case "rdonly": // EBADF: the descriptor is not open for writing
		f, err := os.Open(passwdPath())
		if err != nil {
			panic(err)
		}
		defer f.Close()
		return types.BinaryWrite(f, binary.LittleEndian, someUserec())
	case "efbig": // RLIMIT_FSIZE with SIGXFSZ ignored: write(2) beyond the limit gives EFBIG
		var old syscall.Rlimit
		if err := syscall.Getrlimit(syscall.RLIMIT_FSIZE, &old); err != nil {
			return nil
		}
		signal.Ignore(syscall.SIGXFSZ)
		lim := old
		lim.Cur = 8
		if err := syscall.Setrlimit(syscall.RLIMIT_FSIZE, &lim); err != nil {
			return nil
		}
		p := filepath.Join(env.Home, ".post.limited")
		defer os.Remove(p)
		defer func() { _ = syscall.Setrlimit(syscall.RLIMIT_FSIZE, &old) }()
		putFile(p, make([]byte, 8)) // the append lands at offset 8 >= limit
		pl := &ptt.PostLog{Number: 9}
		copy(pl.Author[:], "STALEAUTHOR")
		f, err := os.OpenFile(p, os.O_WRONLY, 0o600)
		if err != nil {
			panic(err)
		}
		defer f.Close()
		if _, err := f.Seek(8, 0); err != nil {
			panic(err)
		}
		return types.BinaryWrite(f, binary.LittleEndian, pl)
	default: // "enc": the encoder refuses the value (int has no fixed size)
		var b bytes.Buffer
		return types.BinaryWrite(&b, binary.LittleEndian, &struct{ X int }{1})
	}
}

func firstDiff(a, b []byte) int {
	for i := 0; i < len(a) && i < len(b); i++ {
		if a[i] != b[i] {
			return i
		}
	}
	if len(a) != len(b) {
		if len(a) < len(b) {
			return len(a)
		}
		return len(b)
	}
	return -1
}

func execHist(line string, ws []string) (res result) {
	res.line = line
	if len(ws) < 3 {
		return bad(line)
	}
	file, ok := unhex(ws[2])
	if !ok {
		return bad(line)
	}
	type step struct {
		kind string
		p    []string
		uid  ptttype.UID
		val  []byte
	}
	var steps []step
	for _, tok := range ws[3:] {
		p := strings.Split(tok, ":")
		st := step{kind: p[0], p: p}
		switch {
		case p[0] == "F":
			if len(p) >= 3 {
				if u, ok := uidOf(p[2]); ok {
					st.uid = u
				}
			}
		case p[0] == "U" && len(p) == 4:
			u, ok1 := uidOf(p[2])
			v, ok2 := unhex(p[3])
			if !ok1 || !ok2 {
				return bad(line)
			}
			st.uid, st.val = u, v
		case p[0] == "R" && len(p) == 3:
			u, ok1 := uidOf(p[1])
			v, ok2 := unhex(p[2])
			if !ok1 || !ok2 {
				return bad(line)
			}
			st.uid, st.val = u, v
		case p[0] == "A" && len(p) == 2:
			v, ok := unhex(p[1])
			if !ok {
				return bad(line)
			}
			st.val = v
		default:
			return bad(line)
		}
		steps = append(steps, st)
	}
	putFile(passwdPath(), file)
	_ = os.Remove(postPath())
	refPasswd := append([]byte{}, file...)
	refPost := []byte{}
	stride := documentedSize["UserecRaw"]
	var status []byte
	var trail []string
	lbl := ""
	for _, st := range steps {
		var err error
		name := ""
		wantOK := false
		switch st.kind {
		case "F":
			kind := "enc"
			if len(st.p) >= 2 {
				kind = st.p[1]
			}
			name = "failed-write:" + kind
			err = failWrite(kind, st.uid)
			if err == nil {
				run.Note("hist: could not provoke the failing write " + kind)
			}
		case "U":
			name = st.p[1]
			f, known := updFns[name]
			if !known || len(st.val) != updArgLen[name] {
				err = fmt.Errorf("no such update / argument length")
			} else {
				err = f(st.uid, st.val)
				if st.uid.IsValid() {
					wantOK = true
					fz, _ := frozenFieldOf("UserecRaw", intended[name].fields[0])
					lo := (int(st.uid)-1)*stride + fz.off
					for len(refPasswd) < lo+fz.size {
						refPasswd = append(refPasswd, 0)
					}
					copy(refPasswd[lo:], st.val)
				}
			}
		case "R":
			name = "cmbbs.PasswdUpdate"
			u := &ptttype.UserecRaw{}
			if len(st.val) != binSize(reflect.TypeOf(*u)) {
				err = fmt.Errorf("record length")
			} else {
				if e := binary.Read(bytes.NewReader(st.val), binary.LittleEndian, u); e != nil {
					panic(e)
				}
				err = cmbbs.PasswdUpdate(st.uid, u)
				if st.uid.IsValid() {
					wantOK = true
					lo := (int(st.uid) - 1) * stride
					for len(refPasswd) < lo+stride {
						refPasswd = append(refPasswd, 0)
					}
					copy(refPasswd[lo:], st.val)
				}
			}
		case "A":
			name = "cmsys.AppendRecord"
			pl := &ptt.PostLog{}
			if len(st.val) != documentedSize["PostLog"] {
				err = fmt.Errorf("record length")
			} else {
				if e := binary.Read(bytes.NewReader(st.val), binary.LittleEndian, pl); e != nil {
					panic(e)
				}
				_, err = cmsys.AppendRecord(postPath(), pl, ptt.POSTLOG_SZ)
				wantOK = true
				lo := len(refPost) / 100 * 100
				for len(refPost) < lo+100 {
					refPost = append(refPost, 0)
				}
				copy(refPost[lo:], st.val)
			}
		}
		if err != nil {
			status = append(status, 'E')
		} else {
			status = append(status, 'K')
		}
		// P-hat: after every step the files are exactly what the steps so far should have produced
		gotPasswd := getFile(passwdPath())
		gotPost, _ := os.ReadFile(postPath())
		if st.kind != "F" && wantOK != (err == nil) {
			res.fails = append(res.fails, fail{"history:" + name, fmt.Sprintf("after [%s]: %s returned err=%v, expected success=%v", strings.Join(trail, " "), name, err, wantOK)})
		}
		if d := firstDiff(gotPasswd, refPasswd); d >= 0 && len(res.fails) == 0 {
			res.fails = append(res.fails, fail{"history:" + name, fmt.Sprintf("after [%s] then %s: .PASSWDS is %d bytes (expected %d), first wrong byte %d (record %d, offset %d): the write did not put exactly the image of its own argument",
				strings.Join(trail, " "), name, len(gotPasswd), len(refPasswd), d, d/stride+1, d%stride)})
		}
		if d := firstDiff(gotPost, refPost); d >= 0 && len(res.fails) == 0 {
			res.fails = append(res.fails, fail{"history:" + name, fmt.Sprintf("after [%s] then %s: .post is %d bytes (expected %d), first wrong byte %d", strings.Join(trail, " "), name, len(gotPost), len(refPost), d)})
		}
		trail = append(trail, name)
		if lbl == "" || st.kind != "F" {
			lbl = name
		}
	}
	st := string(status)
	if st == "" {
		st = "-"
	}
	gotPost, _ := os.ReadFile(postPath())
	res.out = st + " " + hx.Hex(getFile(passwdPath())) + " " + hx.Hex(gotPost)
	kinds := make([]string, len(steps))
	for i, s := range steps {
		kinds[i] = s.kind
	}
	res.label = "hist:" + strings.Join(kinds, "")
	return res
}

// ---- .fav: concurrent saves ---------------------------------------------------------------------------

// favImage: the .fav image by the format (pttbbs fav.c write_favrec), encoded here independently of the code.
func favImage(ver int16, n int, lv int32, attr int8) []byte {
	b := make([]byte, 0, 6+14*n)
	b = binary.LittleEndian.AppendUint16(b, uint16(ver))
	b = binary.LittleEndian.AppendUint16(b, uint16(n))
	b = append(b, 0, 0)
	for i := 1; i <= n; i++ {
		b = append(b, byte(fav.FAVT_BOARD), byte(fav.FAVH_FAV))
		b = binary.LittleEndian.AppendUint32(b, uint32(i))
		b = binary.LittleEndian.AppendUint32(b, uint32(lv))
		b = append(b, byte(attr), 0, 0, 0)
	}
	return b
}

type favUser struct {
	id   *ptttype.UserID_t
	file string
	lv   int32
	attr int8
}

func saveFavOnce(u favUser, n int) ([]byte, error) {
	_ = os.Remove(u.file)
	fr := fav.NewFavRaw(nil)
	for bid := ptttype.Bid(1); int(bid) <= n; bid++ {
		ft, err := fr.AddBoard(bid)
		if err != nil {
			return nil, err
		}
		fb := ft.Fp.(*fav.FavBoard)
		fb.LastVisit = u.lv
		fb.Attr = fav.Favh(u.attr)
	}
	if _, err := fr.Save(u.id); err != nil {
		return nil, err
	}
	return os.ReadFile(u.file)
}

var stressBudget = 700 * time.Millisecond

// execFavFile: user 0 has the op's entries; k-1 further users save different entries at the same time.
func execFavFile(line string, rest []string) (res result) {
	res.line = line
	ver, ok0 := natStrict(rest[0])
	n, ok1 := natStrict(rest[1])
	lv, ok2 := natStrict(rest[2])
	attr, ok3 := natStrict(rest[3])
	k, ok4 := natStrict(rest[4])
	if !ok0 || !ok1 || !ok2 || !ok3 || !ok4 {
		return bad(line)
	}
	if n > int(fav.MAX_FAV) || n > int(ptttype.MAX_BOARD) || lv > 1<<31-1 || attr > 127 || k < 1 || k > 64 || ver != int(fav.FAV_VERSION) {
		return result{line: line, out: "ERR", label: "favfile:range"}
	}
	if runtime.GOMAXPROCS(0) < 4 {
		runtime.GOMAXPROCS(4)
	}
	users := make([]favUser, k)
	for j := range users {
		name := fmt.Sprintf("favc01u%d", j)
		u := favUser{id: &ptttype.UserID_t{}, lv: int32(lv), attr: int8(attr)}
		copy(u.id[:], name)
		dir := filepath.Join(env.Home, "home", name[:1], name)
		_ = os.MkdirAll(dir, 0o755)
		u.file = filepath.Join(dir, fav.FAV)
		if j > 0 {
			u.lv = int32((uint32(lv) ^ (0x01010101 * uint32(j+1))) & 0x7fffffff)
			u.attr = int8((attr + 16*j + 1) % 128)
		}
		users[j] = u
	}
	type badSave struct {
		user, round int
		got, want   []byte
		err         error
	}
	var mu sync.Mutex
	var first *badSave
	final := make([][]byte, k)
	deadline := time.Now().Add(stressBudget)
	var wg sync.WaitGroup
	for j := range users {
		wg.Add(1)
		go func(j int) {
			defer wg.Done()
			want := favImage(fav.FAV_VERSION, n, users[j].lv, users[j].attr)
			for round := 0; ; round++ {
				got, err := saveFavOnce(users[j], n)
				mu.Lock()
				if (err != nil || !bytes.Equal(got, want)) && (first == nil || (j == 0 && first.user != 0)) {
					first = &badSave{j, round, got, want, err}
				}
				stop := first != nil || k == 1 || time.Now().After(deadline)
				final[j] = got
				mu.Unlock()
				if stop {
					return
				}
			}
		}(j)
	}
	wg.Wait()
	res.label = fmt.Sprintf("favfile:k=%d", k)
	out := final[0]
	if first != nil {
		if first.user == 0 {
			out = first.got
		}
		key := "conc:fav-save"
		if k == 1 {
			key = "layout:FavBoard.image"
		}
		d := firstDiff(first.got, first.want)
		what := fmt.Sprintf("%d users saving their favorites at the same time: user %d round %d: err=%v, .fav is %d bytes (expected %d)", k, first.user, first.round, first.err, len(first.got), len(first.want))
		if d >= 6 {
			e := (d - 6) / 14
			lo := 6 + e*14
			hi := lo + 14
			if hi > len(first.got) {
				hi = len(first.got)
			}
			what += fmt.Sprintf("; entry %d is % x, its in-memory record serialises to % x", e+1, first.got[lo:hi], first.want[lo:lo+14])
		}
		res.fails = append(res.fails, fail{key, what})
	}
	res.out = hx.Hex(out)
	return res
}

// raceReport: when the binary was built with -race and started with GORACE=log_path=/tmp/verif-c01-race (the
// thorough-only pass of checks/c01.py), a data race found by the detector during the run is a P-hat failure.
func raceReport() {
	name := fmt.Sprintf("/tmp/verif-c01-race.%d", os.Getpid())
	b, err := os.ReadFile(name)
	if err != nil {
		return
	}
	defer os.Remove(name)
	var fns []string
	for _, l := range strings.Split(string(b), "\n") {
		l = strings.TrimSpace(l)
		if strings.HasPrefix(l, "github.com/Ptt-official-app/go-pttbbs/") && len(fns) < 6 {
			fns = append(fns, strings.TrimPrefix(l, "github.com/Ptt-official-app/go-pttbbs/"))
		}
	}
	if lastConcIdx >= 0 {
		run.Fail(lastConcIdx, "race:record-writer", fmt.Sprintf("the race detector reports %d data race(s) while users saved their records at the same time; frames: %s",
			strings.Count(string(b), "WARNING: DATA RACE"), strings.Join(fns, " <- ")))
	}
}
