// c13d: the designation layer of property C13 — "the ID shown in listings, cursors and article URLs
// always designates the one article it was produced from".
//
// It runs histories `reset; post …; del …; list …; xpost …` through the REAL bbs.CreateArticle,
// ptt.DeleteArticles, bbs.LoadGeneralArticles, bbs.CrossPost and bbs.GetArticle on a private BBSHOME, with
// ptttype.USE_AID_URL off and on. After every action it reads back what was stored / reported and emits
// observation ops the Lean driver answers from the model:
//
//	url <board> <final file name> <last line of the stored article>
//	    impl : that line, and what it resolves to (strip display name / URL_PREFIX / board / ".html",
//	           or bbs.ArticleID.ToRaw for the 8-character form)
//	    model: urlLine (webURL …) of the FINAL file name, and resolveLine of the given line
//	listid <file name of the index record> <first owner byte>
//	    impl : id, deleted flag, file name the listing (or the answer of CreateArticle / CrossPost) reports
//	    model: listEntry
//	xref <source file name>
//	    impl : the 8 characters after '#' in the stored cross-post header;  model: aidcText
//
// and the pure forms `weburl <board> <name>` (ptt.GetWebURL on a constructed header) and `entry <name> <owner0>`
// (bbs.NewArticleSummaryFromRaw on a constructed record) over the boundary grid of names.
//
// The property oracle does not use the model: the name / id found in the url line, resolved by the real decoder
// and looked up in the board directory, must be an existing file of that board, byte-identical to the article
// that contains the line, and that article must be the one just posted (it carries a unique marker line);
// an id reported by a listing, given to bbs.GetArticle, must return that same article; ids of one board are
// pairwise distinct.
package main

import (
	"bytes"
	"encoding/binary"
	"fmt"
	"os"
	"path/filepath"
	"sort"
	"strconv"
	"strings"
	"time"

	"github.com/Ptt-official-app/go-pttbbs/bbs"
	"github.com/Ptt-official-app/go-pttbbs/cache"
	"github.com/Ptt-official-app/go-pttbbs/cmsys"
	"github.com/Ptt-official-app/go-pttbbs/ptt"
	"github.com/Ptt-official-app/go-pttbbs/ptttype"
	"github.com/Ptt-official-app/go-pttbbs/types"
	"verifharness/internal/bbsenv"
	"verifharness/internal/hx"
)

var (
	run *hx.Run
	env *bbsenv.Env
)

const recSz = int(ptttype.FILE_HEADER_RAW_SZ)

// ---- fixture ----------------------------------------------------------------------------------------

type board struct {
	name string
	bid  int
}

var boards = map[string]*board{
	"WhoAmI":  {"WhoAmI", 10},
	"EditExp": {"EditExp", 11},
	"Note":    {"Note", 8},
	"SYSOP":   {"SYSOP", 1},
	"ALLPOST": {"ALLPOST", 6},
}

var postBoards = []string{"WhoAmI", "EditExp", "Note", "SYSOP"}
var userNames = []string{"SYSOP", "CodingMan", "Kahou2", "test0"}

var fixtureDir = map[string][]byte{}
var fixtureFiles = map[string]map[string]bool{}

func bpath(b string, elem ...string) string {
	return env.Path(append([]string{"boards", b[:1], b}, elem...)...)
}

func (b *board) bboardID() bbs.BBoardID { return bbs.BBoardID(fmt.Sprintf("%d_%s", b.bid, b.name)) }

func setupFixture() {
	for n, b := range boards {
		// the table above must describe the fixture (else every answer below would be about another board)
		got := types.CstrToString(cache.Shm.Shm.BCache[b.bid-1].Brdname[:])
		if got != n {
			fmt.Fprintf(os.Stderr, "c13d: fixture board %d is %q, expected %q\n", b.bid, got, n)
			os.Exit(2)
		}
		_ = os.MkdirAll(bpath(n), 0o755)
		d, _ := os.ReadFile(bpath(n, ".DIR"))
		fixtureDir[n] = d
		fixtureFiles[n] = map[string]bool{}
		ents, _ := os.ReadDir(bpath(n))
		for _, e := range ents {
			fixtureFiles[n][e.Name()] = true
		}
	}
}

func restoreBoards() {
	for n, b := range boards {
		ents, _ := os.ReadDir(bpath(n))
		for _, e := range ents {
			if !fixtureFiles[n][e.Name()] {
				_ = os.Remove(bpath(n, e.Name()))
			}
		}
		if fixtureFiles[n][".DIR"] {
			_ = os.WriteFile(bpath(n, ".DIR"), fixtureDir[n], 0o644)
		} else {
			_ = os.Remove(bpath(n, ".DIR"))
		}
		_ = cache.SetBTotal(ptttype.Bid(b.bid))
		if len(fixtureDir[n]) == 0 {
			cache.Shm.Shm.Total[b.bid-1] = 0
		}
	}
}

// ---- the board index and directory, read directly ---------------------------------------------------------

type rec struct {
	name   [ptttype.FNLEN]byte
	owner0 byte
}

func (r *rec) cname() string { return string(bytes.TrimRight(r.name[:], "\x00")) }

// basename: the name the article file has in the directory (a delete-marked record keeps its file under "M.").
func (r *rec) basename() string {
	n := r.cname()
	if strings.HasPrefix(n, ".d") {
		return "M." + n[2:]
	}
	return n
}

func readIndex(b string) []rec {
	d, _ := os.ReadFile(bpath(b, ".DIR"))
	var out []rec
	for k := 0; (k+1)*recSz <= len(d); k++ {
		h := &ptttype.FileHeaderRaw{}
		if err := binary.Read(bytes.NewReader(d[k*recSz:(k+1)*recSz]), binary.LittleEndian, h); err != nil {
			panic(err)
		}
		var r rec
		copy(r.name[:], h.Filename[:])
		r.owner0 = h.Owner[0]
		out = append(out, r)
	}
	return out
}

// indexSorted: the creation times in the names of the index records never decrease.
func indexSorted(b string) bool {
	last := int64(0)
	for _, r := range readIndex(b) {
		n := r.basename()
		if len(n) < 12 {
			continue
		}
		t, err := strconv.ParseInt(n[2:12], 10, 64)
		if err != nil {
			continue
		}
		if t < last {
			return false
		}
		last = t
	}
	return true
}

func dirHas(b, name string) bool {
	if name == "" || strings.ContainsAny(name, "/\x00") {
		return false
	}
	ents, _ := os.ReadDir(bpath(b))
	for _, e := range ents {
		if e.Name() == name && e.Type().IsRegular() {
			return true
		}
	}
	return false
}

// ---- history state ---------------------------------------------------------------------------------------------

type article struct {
	board  string
	name   string // file name in the directory (final name)
	marker []byte // a line only this article contains (a cross-post carries the marker of its source)
	xpost  bool
}

type hist struct {
	started bool
	useAid  bool
	posts   map[string][]*article // per board, in posting order
	seq     int
}

var H hist

func lastLine(c []byte) []byte {
	if len(c) == 0 {
		return nil
	}
	end := len(c)
	body := c
	if c[end-1] == '\n' {
		body = c[:end-1]
	}
	i := bytes.LastIndexByte(body, '\n')
	return c[i+1:]
}

// resolve: what a reader does with the stored line, with the REAL decoder for the 8-character form.
func resolve(line []byte) (folder, name string, ok bool) {
	pre := append(append([]byte{}, ptttype.STR_URL_DISPLAYNAME_BIG5...), ' ')
	if !bytes.HasPrefix(line, pre) {
		return "", "", false
	}
	r := line[len(pre):]
	if !bytes.HasSuffix(r, []byte("\n")) {
		return "", "", false
	}
	url := string(r[:len(r)-1])
	p := ptttype.URL_PREFIX + "/"
	if !strings.HasPrefix(url, p) {
		return "", "", false
	}
	rest := url[len(p):]
	i := strings.IndexByte(rest, '/')
	if i < 0 {
		return "", "", false
	}
	folder, seg := rest[:i], rest[i+1:]
	fn := &ptttype.Filename_t{}
	if H.useAid {
		fn = bbs.ArticleID(seg).ToRaw()
	} else {
		if !strings.HasSuffix(seg, ".html") {
			return "", "", false
		}
		copy(fn[:], seg[:len(seg)-len(".html")])
	}
	return folder, string(fn[:]), true
}

func showResolved(line []byte) string {
	var out string
	s := hx.CallSync(func() string {
		folder, name, ok := resolve(line)
		if !ok {
			return "none"
		}
		return hx.Hex([]byte(folder)) + "/" + hx.Hex([]byte(name))
	})
	out = s
	return out
}

func showSummary(s *bbs.ArticleSummary) string {
	d := "0"
	if s.IsDeleted {
		d = "1"
	}
	return hx.Hex([]byte(s.ArticleID)) + " " + d + " " + hx.Hex([]byte(s.Filename))
}

var opCount int

func emit(line, out, label string, nontrivial bool) int {
	if out == "PANIC" || out == "TIMEOUT" {
		label += ":" + strings.ToLower(out)
	}
	i := run.Op(line, out, label, nontrivial)
	opCount = i + 1
	if out == "PANIC" || out == "TIMEOUT" {
		run.Fail(i, "crash:"+strings.Fields(line)[0], fmt.Sprintf("%s on %q: %s", out, line, hx.LastPanic))
	}
	return i
}

func getArticle(b *board, id bbs.ArticleID) ([]byte, string) {
	var content []byte
	out := hx.Call(func() string {
		c, _, _, err := bbs.GetArticle("SYSOP", b.bboardID(), id, 0, false)
		if err != nil {
			return "err:" + err.Error()
		}
		content = c
		return "ok"
	})
	return content, out
}

// judgeDesignates: `name` of board `bn`, as resolved from a text shown to a client, must be the article `a`.
func judgeDesignates(i int, key, what string, bn, name string, a *article, holder []byte) {
	name = strings.TrimRight(name, "\x00")
	if !dirHas(bn, name) {
		run.Fail(i, key, fmt.Sprintf("%s names %s/%s, which is not a file of that board (the article is %s/%s)", what, bn, name, a.board, a.name))
		return
	}
	c, _ := os.ReadFile(bpath(bn, name))
	if holder != nil && !bytes.Equal(c, holder) {
		run.Fail(i, key, fmt.Sprintf("%s names %s/%s, whose content is not the article that carries it (%s/%s)", what, bn, name, a.board, a.name))
		return
	}
	if !bytes.Contains(c, a.marker) {
		run.Fail(i, key, fmt.Sprintf("%s names %s/%s, which is another article than %s/%s", what, bn, name, a.board, a.name))
		return
	}
	if bn != a.board || name != a.name {
		run.Fail(i, key, fmt.Sprintf("%s names %s/%s instead of %s/%s", what, bn, name, a.board, a.name))
	}
}

// judgeID: the id a client was given, handed back to bbs.GetArticle, returns article a.
func judgeID(i int, key, what string, id bbs.ArticleID, a *article) {
	b := boards[a.board]
	c, out := getArticle(b, id)
	if out != "ok" {
		run.Fail(i, key, fmt.Sprintf("%s: id %q given to GetArticle: %s (the article is %s/%s)", what, id, out, a.board, a.name))
		return
	}
	disk, _ := os.ReadFile(bpath(a.board, a.name))
	if !bytes.Equal(c, disk) || !bytes.Contains(c, a.marker) {
		run.Fail(i, key, fmt.Sprintf("%s: id %q given to GetArticle returns another content than article %s/%s", what, id, a.board, a.name))
	}
}

func findArticle(bn, name string) *article {
	for _, a := range H.posts[bn] {
		if a.name == name {
			return a
		}
	}
	return nil
}

// ---- actions ----------------------------------------------------------------------------------------------------

func doReset(ws []string) {
	line := strings.Join(ws, " ")
	if len(ws) != 4 || (ws[1] != "0" && ws[1] != "1") {
		emit(line, "bad-op", "bad-op", false)
		return
	}
	pfx, ok1 := unhex(ws[2])
	disp, ok2 := unhex(ws[3])
	if !ok1 || !ok2 {
		emit(line, "bad-op", "bad-op", false)
		return
	}
	// the line states the configuration the code runs under; it must be the real one
	if string(pfx) != ptttype.URL_PREFIX || !bytes.Equal(disp, ptttype.STR_URL_DISPLAYNAME_BIG5) {
		emit(line, "config-differs", "reset", false)
		return
	}
	ptttype.USE_AID_URL = ws[1] == "1"
	ptttype.QUERY_ARTICLE_URL = true
	restoreBoards()
	H = hist{started: true, useAid: ws[1] == "1", posts: map[string][]*article{}}
	emit(line, "ok", "reset", false)
}

func resetLine(aid bool) string {
	f := "0"
	if aid {
		f = "1"
	}
	return fmt.Sprintf("reset %s %s %s", f, hx.Hex([]byte(ptttype.URL_PREFIX)), hx.Hex(ptttype.STR_URL_DISPLAYNAME_BIG5))
}

func unhex(s string) (b []byte, ok bool) {
	if s == "-" {
		return nil, true
	}
	if len(s)%2 != 0 {
		return nil, false
	}
	defer func() {
		if recover() != nil {
			b, ok = nil, false
		}
	}()
	return hx.UnHex(s), true
}

func natTok(s string) (int, bool) {
	if len(s) == 0 || len(s) > 9 {
		return 0, false
	}
	for i := 0; i < len(s); i++ {
		if s[i] < '0' || s[i] > '9' {
			return 0, false
		}
	}
	v, _ := strconv.Atoi(s)
	return v, true
}

var markerSalt = fmt.Sprintf("%d-%d", os.Getpid(), time.Now().UnixNano())

// observeNew reports the record the action appended to board bn: the answer given to the caller, and (for a
// post) the url line of the stored file.
func observeNew(bn string, nBefore int, s *bbs.ArticleSummary, marker []byte, isXpost bool) *article {
	ix := readIndex(bn)
	if len(ix) != nBefore+1 {
		i := emit(fmt.Sprintf("listid %s 0", hx.Hex(make([]byte, ptttype.FNLEN))), showSummary(s), "created:no-record", true)
		run.Fail(i, "designate:created", fmt.Sprintf("the index of %s has %d records after the action, %d before", bn, len(ix), nBefore))
		return nil
	}
	r := ix[len(ix)-1]
	a := &article{board: bn, name: r.cname(), marker: marker, xpost: isXpost}
	H.posts[bn] = append(H.posts[bn], a)
	i := emit(fmt.Sprintf("listid %s %d", hx.Hex(r.name[:]), r.owner0), showSummary(s), "created", true)
	// the id and the file name given to the caller designate the stored article
	judgeDesignates(i, "designate:created", "the file name in the answer", bn, s.Filename, a, nil)
	judgeID(i, "designate:created", "the answer of the call", s.ArticleID, a)
	return a
}

func observeURL(bn string, a *article, where string, label string) {
	c, err := os.ReadFile(bpath(where, a.name))
	if err != nil {
		return
	}
	line := lastLine(c)
	var full [ptttype.FNLEN]byte
	copy(full[:], a.name)
	brd := make([]byte, ptttype.IDLEN+1)
	copy(brd, bn)
	i := emit(fmt.Sprintf("url %s %s %s", hx.Hex(brd), hx.Hex(full[:]), hx.Hex(line)), hx.Hex(line)+" "+showResolved(line), label, true)
	var folder, name string
	var ok bool
	if hx.CallSync(func() string { folder, name, ok = resolve(line); return "" }) == "PANIC" {
		run.Fail(i, "crash:resolve", "the decoder panics on the stored url: "+hx.LastPanic)
		return
	}
	if !ok {
		run.Fail(i, "designate:url", fmt.Sprintf("article %s/%s does not end with a url line of this site and board (%q)", where, a.name, line))
		return
	}
	if boards[folder] == nil {
		run.Fail(i, "designate:url", fmt.Sprintf("the url of article %s/%s names board %q", where, a.name, folder))
		return
	}
	judgeDesignates(i, "designate:url", "the url line of "+where+"/"+a.name, folder, name, a, c)
	if H.useAid {
		// the 8 characters in the url are an article id: GetArticle with them returns this article
		_, seg, _ := cutLast(string(line))
		judgeID(i, "designate:getarticle", "the id in the url line", bbs.ArticleID(seg), a)
	}
}

// cutLast: the last path segment of the url in a line.
func cutLast(line string) (string, string, bool) {
	line = strings.TrimSuffix(line, "\n")
	k := strings.LastIndexByte(line, '/')
	if k < 0 {
		return line, "", false
	}
	return line[:k], line[k+1:], true
}

func doPost(ws []string) {
	line := strings.Join(ws, " ")
	bb, ok1 := unhex(ws[1])
	ub, ok2 := unhex(ws[2])
	k, ok3 := natTok(ws[3])
	b := boards[string(bb)]
	if !ok1 || !ok2 || !ok3 || b == nil || b.name == "ALLPOST" {
		emit(line, "bad-op", "bad-op", false)
		return
	}
	H.seq++
	marker := []byte(fmt.Sprintf("c13d-marker-%s-%d-%d-%016x", markerSalt, H.seq, k, run.R.U64()))
	content := [][]byte{[]byte("designation test"), marker}
	for j := 0; j < k%4; j++ {
		content = append(content, []byte(fmt.Sprintf("line %d / http://localhost/bbs/%s/M.1234567890.A.%03X.html", j, b.name, k%4096)))
	}
	nBefore := len(readIndex(b.name))
	nAll := len(readIndex("ALLPOST"))
	var s *bbs.ArticleSummary
	t0 := time.Now().Unix()
	out := hx.Call(func() string {
		var err error
		s, err = bbs.CreateArticle(bbs.UUserID(ub), b.bboardID(), []byte("test"), []byte(fmt.Sprintf("post %d", k)), content, "127.0.0.1")
		if err != nil {
			return "err:" + err.Error()
		}
		return "ok"
	})
	label := "post"
	if ix := readIndex(b.name); out == "ok" && len(ix) == nBefore+1 {
		// which stamping path the post took, from the time field of the final name
		nm := ix[len(ix)-1].cname()
		if len(nm) >= 12 {
			if t, err := strconv.ParseInt(nm[2:12], 10, 64); err == nil && t > t0+1 {
				label = "post:stamp-moved-on"
			} else if prev := H.posts[b.name]; len(prev) > 0 && len(prev[len(prev)-1].name) >= 12 && prev[len(prev)-1].name[:12] == nm[:12] {
				label = "post:same-second"
			}
		}
	}
	emit(line, out, label, true)
	if out != "ok" {
		return
	}
	a := observeNew(b.name, nBefore, s, marker, false)
	if a == nil {
		return
	}
	observeURL(b.name, a, b.name, "url")
	// the copy an open board's post leaves in ALLPOST carries the same line: it designates the original
	if ax := readIndex("ALLPOST"); len(ax) == nAll+1 && ax[len(ax)-1].cname() == a.name {
		observeURL(b.name, a, "ALLPOST", "url:allpost")
	}
}

// doCrowd occupies every suffix of the next second (and half of the one after) in the board directory, so that
// the stamps of the following post have to move on (the retry loop of Stampfile / StampfileU).
func doCrowd(ws []string) {
	line := strings.Join(ws, " ")
	bb, ok := unhex(ws[1])
	b := boards[string(bb)]
	if !ok || b == nil {
		emit(line, "bad-op", "bad-op", false)
		return
	}
	now := time.Now().Unix()
	occupy := func(n string) { // never touches a file that is already there (an article of this history)
		if f, err := os.OpenFile(bpath(b.name, n), os.O_WRONLY|os.O_CREATE|os.O_EXCL, 0o644); err == nil {
			f.Close()
		}
	}
	for p := 0; p < 4096; p++ {
		occupy(fmt.Sprintf("M.%d.A.%03X", now+1, p))
		if p%2 == 0 {
			occupy(fmt.Sprintf("M.%d.A.%03X", now+2, p))
		}
	}
	emit(line, "ok", "crowd", true)
}

func doDel(ws []string) {
	line := strings.Join(ws, " ")
	bb, ok1 := unhex(ws[1])
	k, ok2 := natTok(ws[2])
	b := boards[string(bb)]
	if !ok1 || !ok2 || b == nil || len(H.posts[b.name]) == 0 {
		emit(line, "bad-op", "bad-op", false)
		return
	}
	a := H.posts[b.name][k%len(H.posts[b.name])]
	pos := -1
	for j, r := range readIndex(b.name) {
		if r.cname() == a.name {
			pos = j
		}
	}
	if pos < 0 {
		emit(line, "ok", "del:already", false) // already delete-marked
		return
	}
	out := hx.Call(func() string {
		fn := &ptttype.Filename_t{}
		copy(fn[:], a.name)
		bid := &ptttype.BoardID_t{}
		copy(bid[:], b.name)
		if err := ptt.DeleteArticles(bid, fn, ptttype.SortIdx(pos+1)); err != nil {
			return "err:" + err.Error()
		}
		return "ok"
	})
	emit(line, out, "del", true)
}

func doList(ws []string) {
	line := strings.Join(ws, " ")
	bb, ok := unhex(ws[1])
	b := boards[string(bb)]
	if !ok || b == nil {
		emit(line, "bad-op", "bad-op", false)
		return
	}
	ix := readIndex(b.name)
	var sums []*bbs.ArticleSummary
	out := hx.Call(func() string {
		if len(ix) == 0 {
			return "ok"
		}
		// one page that holds the whole index (paging by cursor is property C06's subject)
		ss, _, _, _, _, err := bbs.LoadGeneralArticles("SYSOP", b.bboardID(), "", len(ix)+5, false)
		if err != nil {
			return "err:" + err.Error()
		}
		sums = ss
		return "ok"
	})
	li := emit(line, out, "list", true)
	if out != "ok" {
		return
	}
	if len(sums) != len(ix) {
		run.Fail(li, "designate:listing", fmt.Sprintf("the listing of %s has %d entries, its index %d records", b.name, len(sums), len(ix)))
	}
	seen := map[bbs.ArticleID]string{}
	for j, r := range ix {
		if j >= len(sums) {
			break
		}
		s := sums[j]
		label := "listid"
		if strings.HasPrefix(r.cname(), ".d") {
			label = "listid:deleted"
		}
		i := emit(fmt.Sprintf("listid %s %d", hx.Hex(r.name[:]), r.owner0), showSummary(s), label, true)
		if s.Filename != r.cname() {
			run.Fail(i, "designate:listing", fmt.Sprintf("entry %d of the listing of %s is %q, record %d of the index is %q", j, b.name, s.Filename, j, r.cname()))
			continue
		}
		if prev, dup := seen[s.ArticleID]; dup && prev != r.basename() {
			run.Fail(i, "designate:listing", fmt.Sprintf("entries %q and %q of %s are listed under one id %q", prev, r.basename(), b.name, s.ArticleID))
		}
		seen[s.ArticleID] = r.basename()
		if a := findArticle(b.name, r.basename()); a != nil {
			judgeID(i, "designate:getarticle", fmt.Sprintf("entry %d of the listing of %s", j, b.name), s.ArticleID, a)
			var fn *ptttype.Filename_t
			if hx.CallSync(func() string { fn = s.ArticleID.ToRaw(); return "" }) == "PANIC" {
				run.Fail(i, "crash:toraw", "decoding a listed id panics: "+hx.LastPanic)
				continue
			}
			judgeDesignates(i, "designate:listing", fmt.Sprintf("the id of entry %d of the listing of %s", j, b.name), b.name, string(fn[:]), a, nil)
		}
	}
}

func doXpost(ws []string) {
	line := strings.Join(ws, " ")
	bb, ok1 := unhex(ws[1])
	k, ok2 := natTok(ws[2])
	xb, ok3 := unhex(ws[3])
	b, x := boards[string(bb)], boards[string(xb)]
	if !ok1 || !ok2 || !ok3 || b == nil || x == nil || x.name == "ALLPOST" || len(H.posts[b.name]) == 0 {
		emit(line, "bad-op", "bad-op", false)
		return
	}
	src := H.posts[b.name][k%len(H.posts[b.name])]
	live := false
	for _, r := range readIndex(b.name) {
		if r.cname() == src.name {
			live = true
		}
	}
	if !live {
		emit(line, "ok", "xpost:deleted-source", false)
		return
	}
	fn := &ptttype.Filename_t{}
	copy(fn[:], src.name)
	nBefore := len(readIndex(x.name))
	var s *bbs.ArticleSummary
	out := hx.Call(func() string {
		var err error
		s, _, _, err = bbs.CrossPost("SYSOP", b.bboardID(), bbs.ToArticleID(fn), x.bboardID(), "127.0.0.1")
		if err != nil {
			return "err:" + err.Error()
		}
		return "ok"
	})
	if out == "err:"+ptttype.ErrInvalidFilename.Error() && !indexSorted(b.name) {
		// CrossPost looks its source up by binary search over the creation times in the index (cmsys.GetRecord);
		// a stamp that had to move on to a later second leaves the index out of time order and the search misses
		// records. Finding a record is the subject of C06, not of this property: acknowledged, noted, not judged.
		run.Note(fmt.Sprintf("xpost: source %s/%s is not found by the index search (index of %s is not in time order)", b.name, src.name, b.name))
		emit(line, "ok", "xpost:source-not-found-unsorted-index", false)
		return
	}
	emit(line, out, "xpost", true)
	if out != "ok" {
		return
	}
	a := observeNew(x.name, nBefore, s, src.marker, true)
	if a == nil {
		return
	}
	// the reference to the source in the header of the copy
	c, _ := os.ReadFile(bpath(x.name, a.name))
	ref, refBoard := "", ""
	if p := bytes.Index(c, ptt.CROSS_POST_BOARD_PREFIX); p >= 0 {
		r := c[p+len(ptt.CROSS_POST_BOARD_PREFIX):]
		if q := bytes.Index(r, ptt.CROSS_POST_BOARD_INFIX); q >= 0 {
			refBoard = string(r[:q])
			r = r[q+len(ptt.CROSS_POST_BOARD_INFIX):]
			if e := bytes.IndexByte(r, ']'); e >= 0 {
				ref = string(r[:e])
			}
		}
	}
	var full [ptttype.FNLEN]byte
	copy(full[:], src.name)
	i := emit("xref "+hx.Hex(full[:]), hx.Hex([]byte(ref)), "xref", true)
	if refBoard != b.name {
		run.Fail(i, "designate:xref", fmt.Sprintf("the cross-post of %s/%s says it comes from board %q", b.name, src.name, refBoard))
		return
	}
	var back *ptttype.Filename_t
	if hx.CallSync(func() string { back = bbs.ArticleID(ref).ToRaw(); return "" }) == "PANIC" {
		run.Fail(i, "crash:toraw", "decoding the cross-post reference panics: "+hx.LastPanic)
		return
	}
	judgeDesignates(i, "designate:xref", "the reference #"+ref+" in the cross-post "+x.name+"/"+a.name, b.name, string(back[:]), src, nil)
	judgeID(i, "designate:xref", "the reference in the cross-post header", bbs.ArticleID(ref), src)
}


// ---- which entry an id addresses ----------------------------------------------------------------------------------

func cstrOf(b []byte) []byte {
	if i := bytes.IndexByte(b, 0); i >= 0 {
		return b[:i]
	}
	return b
}

// judgeLookup: P̂ for a lookup by id over an index holding `names` (in time order, one entry per time+suffix):
// the id resolves to the entry whose name it encodes (creation time and suffix; a delete-marked entry counts
// as the name it had), or to nothing.
func judgeLookup(i int, key string, id bbs.ArticleID, names [][]byte, found int, what string) {
	d := id.ToRaw()
	want := -1
	for k, n := range names {
		var f ptttype.Filename_t
		copy(f[:], n)
		if bytes.Equal(cstrOf(f[2:]), cstrOf(d[2:])) {
			want = k
		}
	}
	switch {
	case found >= len(names):
		run.Fail(i, key, fmt.Sprintf("%s: id %q (%s) resolves to position %d of an index of %d", what, id, cstrOf(d[:]), found, len(names)))
	case found >= 0 && found != want:
		run.Fail(i, key, fmt.Sprintf("%s: id %q encodes %s and resolves to the entry %s (position %d): another article", what, id, cstrOf(d[:]), cstrOf(names[found]), found))
	case found < 0 && want >= 0:
		run.Fail(i, key+"-miss", fmt.Sprintf("%s: id %q encodes %s, which is entry %d of the index, and resolves to nothing", what, id, cstrOf(d[:]), want))
	}
	if found >= 0 && found == want {
		n := names[found]
		if !(n[0] == d[0] && n[1] == d[1]) && !(n[0] == '.' && n[1] == 'd') {
			// Filename_t.Eq does not compare the first two bytes (so that a delete-marked entry is found under
			// the id of its old name): the id of G.<t>.A.<s> therefore addresses the entry M.<t>.A.<s>.
			typeLetterNotes++
			if typeLetterNotes <= 3 {
				run.Note(fmt.Sprintf("%s: id %q encodes %s and resolves to the entry %s (same time and suffix, other type letter)", what, id, cstrOf(d[:]), cstrOf(n)))
			}
		}
	}
}

var typeLetterNotes int

var lookupDir string

// doLookup: `lookup <id> <names, 28 bytes each>` writes the names as a .DIR of its own and asks cmsys.GetRecord
// (the lookup behind CreateComment / EditArticle / CrossPost) for the id.
func doLookup(ws []string) {
	line := strings.Join(ws, " ")
	idb, ok1 := unhex(ws[1])
	nb, ok2 := unhex(ws[2])
	if !ok1 || !ok2 || len(nb)%ptttype.FNLEN != 0 {
		emit(line, "bad-op", "bad-op", false)
		return
	}
	var names [][]byte
	var dir bytes.Buffer
	for k := 0; k+ptttype.FNLEN <= len(nb); k += ptttype.FNLEN {
		names = append(names, nb[k:k+ptttype.FNLEN])
		h := &ptttype.FileHeaderRaw{}
		copy(h.Filename[:], nb[k:k+ptttype.FNLEN])
		copy(h.Owner[:], "SYSOP")
		_ = binary.Write(&dir, binary.LittleEndian, h)
	}
	if lookupDir == "" {
		lookupDir = env.Path("tmp", "c13d-lookup")
		_ = os.MkdirAll(lookupDir, 0o755)
	}
	path := filepath.Join(lookupDir, ".DIR")
	_ = os.WriteFile(path, dir.Bytes(), 0o644)
	id := bbs.ArticleID(idb)
	found := -1
	out := hx.CallSync(func() string {
		idx, fhdr, err := cmsys.GetRecord(path, id.ToFilename(), len(names))
		if err != nil || fhdr == nil {
			return "none"
		}
		found = int(idx) - 1
		if found < 0 || found >= len(names) || !bytes.Equal(fhdr.Filename[:], names[found]) {
			return fmt.Sprintf("%d:%s", found, hx.Hex(fhdr.Filename[:])) // position and header disagree
		}
		return strconv.Itoa(found)
	})
	label := "lookup:found"
	if out == "none" {
		label = "lookup:none"
	}
	i := emit(line, out, label, true)
	if out == "PANIC" {
		return
	}
	judgeLookup(i, "designate:lookup", id, names, found, "cmsys.GetRecord")
}

// ---- ids of names that are NOT in the index, through every entry point that takes an id --------------------------

type snapshot map[string][]byte // "board/file" -> content

func takeSnapshot() snapshot {
	sn := snapshot{}
	for n := range boards {
		ents, _ := os.ReadDir(bpath(n))
		for _, e := range ents {
			info, err := e.Info()
			if err != nil || !info.Mode().IsRegular() {
				continue
			}
			if info.Size() == 0 {
				sn[n+"/"+e.Name()] = []byte{}
				continue
			}
			c, _ := os.ReadFile(bpath(n, e.Name()))
			sn[n+"/"+e.Name()] = c
		}
	}
	return sn
}

// changed: what differs between two snapshots (index files record by record).
func changed(a, b snapshot) []string {
	var out []string
	for k, v := range b {
		old, ok := a[k]
		switch {
		case !ok:
			out = append(out, k+" (new)")
		case !bytes.Equal(old, v):
			if strings.HasSuffix(k, "/.DIR") {
				for r := 0; r*recSz < len(v) || r*recSz < len(old); r++ {
					x, y := cut(old, r*recSz, recSz), cut(v, r*recSz, recSz)
					if !bytes.Equal(x, y) {
						out = append(out, fmt.Sprintf("%s record %d (%s)", k, r, cstrOf(cut(y, 0, ptttype.FNLEN))))
					}
				}
			} else {
				out = append(out, k)
			}
		}
	}
	for k := range a {
		if _, ok := b[k]; !ok {
			out = append(out, k+" (removed)")
		}
	}
	sort.Strings(out)
	return out
}

func cut(b []byte, off, n int) []byte {
	if off >= len(b) {
		return nil
	}
	if off+n > len(b) {
		return b[off:]
	}
	return b[off : off+n]
}

var epNames = []string{"getarticle", "comment", "edit", "crosspost", "delete", "cursor"}

// doProbe: `probe <board> <k> <variant> <entry point>` derives from the k-th article posted in this history a name
// that is NOT in the index (one second later / earlier with the same suffix, other type letter, one time digit or one
// suffix digit changed, or the article's own name after its record was taken out of the index) and hands the id of
// that name to an entry point. P̂: the entry point refuses, or acts on exactly the file the id decodes to: no other
// file of any board and no index record changes, nothing is created elsewhere.
// variant 6 is the article's own, present name (the entry points do act on an id that is in the index).
func doProbe(ws []string) {
	line := strings.Join(ws, " ")
	bb, ok1 := unhex(ws[1])
	k, ok2 := natTok(ws[2])
	v, ok3 := natTok(ws[3])
	ep, ok4 := natTok(ws[4])
	b := boards[string(bb)]
	if !ok1 || !ok2 || !ok3 || !ok4 || b == nil || v > 6 || ep >= len(epNames) || len(H.posts[b.name]) == 0 {
		emit(line, "bad-op", "bad-op", false)
		return
	}
	src := H.posts[b.name][k%len(H.posts[b.name])]
	if len(src.name) != 18 {
		emit(line, "ok", "probe:odd-name", false)
		return
	}
	t, _ := strconv.ParseInt(src.name[2:12], 10, 64)
	p, _ := strconv.ParseInt(src.name[15:18], 16, 32)
	target := src.name
	switch v {
	case 0:
		target = fmt.Sprintf("M.%010d.A.%03X", t+1, p)
	case 1:
		target = fmt.Sprintf("M.%010d.A.%03X", t-1, p)
	case 2:
		target = "G" + src.name[1:]
	case 3:
		target = fmt.Sprintf("M.%010d.A.%03X", t+[]int64{10, 100, 1000, 100000}[k%4], p)
	case 4:
		target = fmt.Sprintf("M.%010d.A.%03X", t, p^(1<<(4*uint(k%3))))
	case 5:
		// take the record out of the index (as an expiry run does); the file stays
		ix := readIndex(b.name)
		d, _ := os.ReadFile(bpath(b.name, ".DIR"))
		for j, r := range ix {
			if r.basename() == src.name {
				d = append(append([]byte{}, d[:j*recSz]...), d[(j+1)*recSz:]...)
				_ = os.WriteFile(bpath(b.name, ".DIR"), d, 0o644)
				_ = cache.SetBTotal(ptttype.Bid(b.bid))
				break
			}
		}
	}
	inIndex, live := false, false
	for _, r := range readIndex(b.name) {
		if len(r.basename()) == 18 && r.basename()[2:] == target[2:] {
			inIndex = true
			live = r.cname() == r.basename()
		}
	}
	present := v == 6 || v == 2 // the G twin of a present M name has the entry's time and suffix: Eq finds that entry
	if !present && (inIndex || (v != 5 && dirHas(b.name, target))) {
		emit(line, "ok", "probe:name-is-present", false) // the derived name happens to exist: not this class
		return
	}
	if present && !inIndex {
		emit(line, "ok", "probe:removed-before", false)
		return
	}
	if present && !live {
		// a comment addressed to a delete-marked entry is retried for 5 s before it is refused (doAddRecommend
		// sleeps between attempts on a file that is not there): a request to a deleted article is not this class
		emit(line, "ok", "probe:deleted-entry", false)
		return
	}
	fn := &ptttype.Filename_t{}
	copy(fn[:], target)
	id := bbs.ToArticleID(fn)
	before := takeSnapshot()
	tag := []byte(fmt.Sprintf("c13d-probe-%d-%016x", H.seq, run.R.U64()))
	H.seq++
	x := boards["EditExp"]
	if b.name == "EditExp" {
		x = boards["WhoAmI"]
	}
	out := hx.CallT(10*time.Second, func() string {
		switch ep {
		case 0:
			_, _, _, _ = bbs.GetArticle("SYSOP", b.bboardID(), id, 0, false)
		case 1:
			_, _, _ = bbs.CreateComment("Kahou2", b.bboardID(), id, ptttype.COMMENT_TYPE_RECOMMEND, tag, "127.0.0.1")
		case 2:
			_, _, _, _, _, _ = bbs.EditArticle("SYSOP", b.bboardID(), id, []byte("test"), []byte("edited"), [][]byte{tag}, 0, 0, "127.0.0.1")
		case 3:
			_, _, _, _ = bbs.CrossPost("SYSOP", b.bboardID(), id, x.bboardID(), "127.0.0.1")
		case 4:
			_, _ = bbs.DeleteArticles("SYSOP", b.bboardID(), []bbs.ArticleID{id}, "127.0.0.1")
		case 5:
			_, _, _, _, _, _ = bbs.LoadGeneralArticles("SYSOP", b.bboardID(), fmt.Sprintf("%d@%s", t, id), 3, k%2 == 0)
		}
		return "ok"
	})
	label := "probe:absent:" + epNames[ep]
	if present {
		label = "probe:present:" + epNames[ep]
	}
	if v == 2 {
		label = "probe:type-letter:" + epNames[ep]
	}
	i := emit(line, out, label, true)
	if out != "ok" {
		return
	}
	after := takeSnapshot()
	ch := changed(before, after)
	own := b.name + "/" + target
	var foreign []string
	acted := false
	for _, c := range ch {
		switch {
		case c == own || c == own+" (new)":
			acted = true
		case present && strings.HasPrefix(c, b.name+"/.DIR record ") && strings.HasSuffix(c, "("+target+")"):
			acted = true
		case present && (ep == 3 || ep == 4):
			acted = true // a cross-post / deletion of a present article legitimately touches other files
		default:
			foreign = append(foreign, c)
		}
	}
	if v == 2 && len(ch) > 0 {
		typeLetterNotes++
		if typeLetterNotes <= 6 {
			run.Note(fmt.Sprintf("%s with id %q (= %s/%s, a G name; the index holds %s) changed %s", epNames[ep], id, b.name, target, src.name, strings.Join(ch, ", ")))
		}
	}
	if len(foreign) > 0 && !present {
		run.Fail(i, "designate:absent-id:"+epNames[ep], fmt.Sprintf("%s with id %q (= %s/%s, %s) changed %s", epNames[ep], id, b.name, target,
			map[bool]string{true: "in the index", false: "NOT in the index"}[present], strings.Join(foreign, ", ")))
	}
	if v == 6 && ep == 1 && !acted {
		run.Fail(i, "designate:present-id:comment", fmt.Sprintf("a comment addressed to id %q (= %s/%s, in the index) did not reach that article", id, b.name, target))
	}
	// what the lookup itself answers on this board's index (when the index is in time order: C06's precondition)
	if indexSorted(b.name) {
		var names [][]byte
		var cat []byte
		for _, r := range readIndex(b.name) {
			n := append([]byte{}, r.name[:]...)
			names = append(names, n)
			cat = append(cat, n...)
		}
		if len(names) > 0 && uniqueKeys(names) {
			found := -1
			o := hx.CallSync(func() string {
				idx, fhdr, err := cmsys.GetRecord(bpath(b.name, ".DIR"), id.ToFilename(), len(names))
				if err != nil || fhdr == nil {
					return "none"
				}
				found = int(idx) - 1
				return strconv.Itoa(found)
			})
			j := emit(fmt.Sprintf("lookup %s %s", hx.Hex([]byte(id)), hx.Hex(cat)), o, "lookup:board", true)
			if o != "PANIC" {
				judgeLookup(j, "designate:lookup", id, names, found, "cmsys.GetRecord on the index of "+b.name)
			}
		}
	}
}

func uniqueKeys(names [][]byte) bool {
	seen := map[string]bool{}
	for _, n := range names {
		k := string(cstrOf(n[2:]))
		if seen[k] {
			return false
		}
		seen[k] = true
	}
	return true
}

// ---- malformed cursors ---------------------------------------------------------------------------------------------

// doCursor: `cursor <text>` hands arbitrary client text to the cursor parser and to the listing call that takes it.
// P̂ (clause "decoding arbitrary client-supplied ID text never crashes the server"): an answer or an error, never a
// panic or a stall.
func doCursor(ws []string) {
	line := strings.Join(ws, " ")
	tb, ok := unhex(ws[1])
	if !ok {
		emit(line, "bad-op", "bad-op", false)
		return
	}
	text := string(tb)
	label := "cursor:refused"
	out := hx.Call(func() string {
		if _, _, err := bbs.DeserializeArticleIdxStr(text); err == nil {
			label = "cursor:parsed"
		}
		for _, desc := range []bool{false, true} {
			_, _, _, _, _, _ = bbs.LoadGeneralArticles("SYSOP", boards["WhoAmI"].bboardID(), text, 3, desc)
		}
		return "no-crash"
	})
	i := run.Op(line, out, label, true)
	opCount = i + 1
	if out != "no-crash" {
		run.Fail(i, "crash:cursor", fmt.Sprintf("%s on cursor text %q (DeserializeArticleIdxStr / LoadGeneralArticles): %s", out, text, hx.LastPanic))
	}
}

// cursorStream: `<time>@<id>` with an id part of every length 0..10 (alphabet characters, NUL, '@', bytes >= 0x80),
// missing / doubled / leading / trailing '@', empty time, signs, non-digits, overlong numbers, random bytes.
func cursorStream(r *hx.Rand) {
	do(resetLine(false), false)
	alphabet := []byte("0123456789ABCDEFGHIJKLMNOPQRSTUVWXYZabcdefghijklmnopqrstuvwxyz-_")
	cur := func(s []byte) { do("cursor "+hx.Hex(s), false) }
	times := []string{"1607202239", "0", "", "-1", "+5", "16072x2239", " 1607202239", "2147483647", "2147483648", "99999999999999999999", "1607203395"}
	id := []byte("1VrooM21xy")
	for _, t := range times {
		for l := 0; l <= 10; l++ {
			cur([]byte(t + "@" + string(id[:l])))
		}
		cur([]byte(t))
		cur([]byte(t + "@@" + string(id[:8])))
		cur([]byte(t + "@" + string(id[:8]) + "@"))
		cur([]byte("@" + t + "@" + string(id[:8])))
		cur([]byte(t + "@" + string(id[:4]) + "@" + string(id[4:8])))
	}
	cur([]byte("@"))
	cur([]byte("@@"))
	cur(nil)
	// the cursor of a real entry, truncated at every length, and with one byte replaced
	var f ptttype.Filename_t
	copy(f[:], "M.1607203395.A.00D")
	real := []byte("1607203395@" + string(bbs.ToArticleID(&f)))
	for l := 0; l <= len(real); l++ {
		cur(real[:l])
	}
	n := 300
	if run.Thorough() {
		n = 6000
	}
	for k := 0; k < n; k++ {
		switch r.Intn(4) {
		case 0:
			c := append([]byte{}, real...)
			c[r.Intn(len(c))] = byte(r.U64())
			cur(c)
		case 1:
			cur([]byte(fmt.Sprintf("%d@%s", r.U64()%3000000000, r.Bytes(r.Intn(11), alphabet))))
		case 2:
			cur([]byte(fmt.Sprintf("%d@%s", r.U64()%3000000000, r.Bytes(r.Intn(11), nil))))
		default:
			cur(r.Bytes(r.Intn(24), []byte("0123456789@@@-+ aZ_\x00\xff")))
		}
	}
}

// ---- pure forms ---------------------------------------------------------------------------------------------------

func doWebURL(ws []string) {
	line := strings.Join(ws, " ")
	bb, ok1 := unhex(ws[1])
	f, ok2 := unhex(ws[2])
	if !ok1 || !ok2 {
		emit(line, "bad-op", "bad-op", false)
		return
	}
	brd := &ptttype.BoardHeaderRaw{}
	copy(brd.Brdname[:], bb)
	h := &ptttype.FileHeaderRaw{}
	copy(h.Filename[:], f)
	out := hx.CallSync(func() string { return hx.Hex([]byte(ptt.GetWebURL(brd, h))) })
	emit(line, out, "weburl", true)
}

func doEntry(ws []string) {
	line := strings.Join(ws, " ")
	f, ok1 := unhex(ws[1])
	o, ok2 := natTok(ws[2])
	if !ok1 || !ok2 || o > 255 {
		emit(line, "bad-op", "bad-op", false)
		return
	}
	h := &ptttype.FileHeaderRaw{}
	copy(h.Filename[:], f)
	copy(h.Owner[:], "SYSOP")
	h.Owner[0] = byte(o)
	bid := &ptttype.BoardID_t{}
	copy(bid[:], "WhoAmI")
	out := hx.CallSync(func() string {
		return showSummary(bbs.NewArticleSummaryFromRaw("10_WhoAmI", ptttype.NewArticleSummaryRaw(1, bid, h)))
	})
	emit(line, out, "entry", true)
}

// ---- dispatch -----------------------------------------------------------------------------------------------------

func do(line string, replay bool) {
	ws := strings.Fields(line)
	if len(ws) == 0 {
		emit(line, "bad-op", "bad-op", false)
		return
	}
	switch {
	case ws[0] == "reset":
		doReset(ws)
		return
	case replay && (ws[0] == "url" || ws[0] == "listid" || ws[0] == "xref"):
		// observations are regenerated by the actions of the history: the names in a recorded line belong
		// to the run that recorded it
		return
	case !H.started:
	case ws[0] == "post" && len(ws) == 4:
		doPost(ws)
		return
	case ws[0] == "crowd" && len(ws) == 2:
		doCrowd(ws)
		return
	case ws[0] == "del" && len(ws) == 3:
		doDel(ws)
		return
	case ws[0] == "list" && len(ws) == 2:
		doList(ws)
		return
	case ws[0] == "xpost" && len(ws) == 4:
		doXpost(ws)
		return
	case ws[0] == "probe" && len(ws) == 5:
		doProbe(ws)
		return
	case ws[0] == "cursor" && len(ws) == 2:
		doCursor(ws)
		return
	case ws[0] == "lookup" && len(ws) == 3:
		doLookup(ws)
		return
	case ws[0] == "weburl" && len(ws) == 3:
		doWebURL(ws)
		return
	case ws[0] == "entry" && len(ws) == 3:
		doEntry(ws)
		return
	}
	emit(line, "bad-op", "bad-op", false)
}

func hb(s string) string { return hx.Hex([]byte(s)) }

func name(ty string, t uint64, p int) []byte {
	return []byte(fmt.Sprintf("%s%010d.A.%03X", ty, t, p))
}

// lookupStream: cmsys.GetRecord on constructed indexes (1..6 entries in time order, one entry per time+suffix, some
// delete-marked) for the ids of every name of a small pool: present ones, and absent ones that share the suffix /
// the second with a present entry or differ from it in one field.
func lookupStream(r *hx.Rand) {
	do(resetLine(false), false)
	n := 150
	if run.Thorough() {
		n = 4000
	}
	for c := 0; c < n; c++ {
		t0 := uint64(1000000000 + r.U64()%1147483000)
		if c == 0 {
			t0 = 1607203395
		}
		times := []uint64{t0, t0 + 1, t0 + 2, t0 + 10, t0 + 1000}
		sufs := []int{0x00D, 0x00E, 0x10D}
		type key struct {
			t uint64
			p int
		}
		var pool []key
		for _, t := range times {
			for _, p := range sufs {
				pool = append(pool, key{t, p})
			}
		}
		size := 1 + r.Intn(6)
		if c < 3 {
			size = 1 + c
		}
		picked := map[int]bool{}
		for len(picked) < size {
			picked[r.Intn(len(pool))] = true
		}
		if c == 0 {
			picked = map[int]bool{0: true}
		}
		var cat []byte
		for k := range pool { // pool order is time order
			if !picked[k] {
				continue
			}
			var f ptttype.Filename_t
			copy(f[:], name([]string{"M.", "M.", "M.", ".d", "G."}[r.Intn(5)], pool[k].t, pool[k].p))
			cat = append(cat, f[:]...)
		}
		for k := range pool {
			if size > 2 && r.Intn(3) > 0 && !picked[k] {
				continue
			}
			for _, ty := range []string{"M.", "G."} {
				var f ptttype.Filename_t
				copy(f[:], name(ty, pool[k].t, pool[k].p))
				do(fmt.Sprintf("lookup %s %s", hx.Hex([]byte(bbs.ToArticleID(&f))), hx.Hex(cat)), false)
			}
		}
		do(fmt.Sprintf("lookup %s %s", hx.Hex(r.Bytes(r.Intn(10), nil)), hx.Hex(cat)), false) // arbitrary client text
	}
	do("lookup 00 0000", false)
}

func generate() {
	r := run.R
	nHist, nGrid := 40, 400
	if run.Thorough() {
		nHist, nGrid = 600, 20000
	}
	// smallest histories first: one post, then list; both url forms
	for _, aid := range []bool{false, true} {
		do(resetLine(aid), false)
		do(fmt.Sprintf("post %s %s 0", hb("WhoAmI"), hb("SYSOP")), false)
		do("list "+hb("WhoAmI"), false)
	}
	// ids of absent names next to a present entry, every variant x every entry point, on a two-article board
	for v := 0; v <= 6; v++ {
		do(resetLine(false), false)
		do(fmt.Sprintf("post %s %s 0", hb("WhoAmI"), hb("SYSOP")), false)
		do(fmt.Sprintf("post %s %s 1", hb("WhoAmI"), hb("CodingMan")), false)
		for ep := range epNames {
			do(fmt.Sprintf("probe %s %d %d %d", hb("WhoAmI"), ep%2, v, ep), false)
		}
	}
	lookupStream(r)
	cursorStream(r)
	for h := 0; h < nHist; h++ {
		aid := h%2 == 1
		do(resetLine(aid), false)
		nOps := 2 + r.Intn(9)
		crowded := r.Intn(8) == 0
		for k := 0; k < nOps; k++ {
			b := postBoards[r.Intn(len(postBoards))]
			if r.Intn(3) > 0 {
				b = postBoards[h%len(postBoards)] // mostly one board: many posts in the same second there
			}
			switch c := r.Intn(12); {
			case c < 6 || len(H.posts[b]) == 0:
				if crowded && r.Intn(2) == 0 {
					do("crowd "+hb(b), false)
				}
				do(fmt.Sprintf("post %s %s %d", hb(b), hb(userNames[r.Intn(len(userNames))]), r.Intn(100)), false)
			case c < 7:
				do(fmt.Sprintf("del %s %d", hb(b), r.Intn(16)), false)
			case c < 9:
				do("list "+hb(b), false)
			case c >= 10:
				v := r.Intn(7)
				if r.Intn(3) == 0 {
					v = r.Intn(2) // the neighbouring second with the same suffix
				}
				ep := r.Intn(len(epNames))
				if r.Intn(3) == 0 {
					ep = 1
				}
				do(fmt.Sprintf("probe %s %d %d %d", hb(b), r.Intn(16), v, ep), false)
			default:
				do(fmt.Sprintf("xpost %s %d %s", hb(b), r.Intn(16), hb(postBoards[r.Intn(len(postBoards))])), false)
			}
		}
		for _, b := range postBoards {
			if len(H.posts[b]) > 0 {
				do("list "+hb(b), false)
			}
		}
	}
	// pure forms over the name grid (names no running clock produces: G names, the 2^31 boundary, delete-marked,
	// out-of-domain), both url forms
	const tMin, tMax = 1000000000, 1<<31 - 1
	for _, aid := range []bool{false, true} {
		do(resetLine(aid), false)
		brds := [][]byte{[]byte("WhoAmI"), []byte("SYSOP"), []byte("a"), []byte("ABCDEFGHIJKL"), []byte("ABCDEFGHIJKLM"), []byte("x\x00y"), {}}
		var names [][]byte
		for _, ty := range []string{"M.", "G.", ".d"} {
			for _, t := range []uint64{tMin, tMax, 1234567890} {
				for _, p := range []int{0, 1, 0xabc, 0xfff} {
					names = append(names, name(ty, t, p))
				}
			}
		}
		for i := 0; i < nGrid; i++ {
			ty := []string{"M.", "G.", ".d"}[r.Intn(3)]
			names = append(names, name(ty, tMin+r.U64()%(tMax-tMin+1), r.Intn(4096)))
		}
		fnAlpha := []byte("MG.dA0123456789abcdefABCDEF/ \x00x")
		for i := 0; i < nGrid/4; i++ {
			switch r.Intn(3) {
			case 0:
				names = append(names, []byte(fmt.Sprintf("M.%d.A.%03x", r.U64()%10000000000, r.Intn(4096))))
			case 1:
				n := name("M.", tMin+r.U64()%(tMax-tMin), r.Intn(4096))
				n[r.Intn(len(n))] = r.Pick(fnAlpha)
				names = append(names, n)
			default:
				names = append(names, r.Bytes(r.Intn(29), fnAlpha))
			}
		}
		for i, n := range names {
			do(fmt.Sprintf("weburl %s %s", hx.Hex(brds[i%len(brds)]), hx.Hex(n)), false)
			do(fmt.Sprintf("entry %s %d", hx.Hex(n), []int{'S', '-', 'a', 0xa1}[i%4]), false)
		}
	}
	// malformed ops
	for _, l := range []string{"post", "post zz 00 1", "list", "url 00", "listid 00", "reset 2 00 00", "weburl 00", "entry 00 x", "xref", "probe 00 1 1", "probe zz 1 1 1", "lookup zz 00"} {
		do(l, false)
	}
}

func main() {
	run = hx.Start("C13")
	defer run.Finish()
	var err error
	env, err = bbsenv.New(bbsenv.Options{})
	if err != nil {
		fmt.Fprintln(os.Stderr, "bbsenv:", err)
		os.Exit(2)
	}
	defer env.Close()
	_ = filepath.Join
	setupFixture()
	origAid, origQ := ptttype.USE_AID_URL, ptttype.QUERY_ARTICLE_URL
	defer func() { ptttype.USE_AID_URL, ptttype.QUERY_ARTICLE_URL = origAid, origQ }()
	run.Rule = "designation histories on a private BBSHOME: `reset <USE_AID_URL>; post|crowd|del|list|xpost ...` through bbs.CreateArticle, ptt.DeleteArticles, " +
		"bbs.LoadGeneralArticles (the whole index in one page), bbs.CrossPost, bbs.GetArticle; both url forms, 4 boards x 4 authors, 2..10 actions, several posts within one second, " +
		"occasionally every suffix of the next second occupied (stamp retries), delete-marked entries, the ALLPOST copy; after each action the stored url line, the reported id / file name " +
		"and the cross-post reference are read back (observation ops) and resolved by the real decoder and a directory lookup. " +
		"pure forms: ptt.GetWebURL and bbs.NewArticleSummaryFromRaw on constructed headers over boundary/random/delete-marked/out-of-domain names and board names of every length. " +
		"nontrivial = reached the real function"
	if run.Replay != "" {
		for _, l := range hx.ReplayOps(run.Replay) {
			do(l, true)
		}
		return
	}
	generate()
}
