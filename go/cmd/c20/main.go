// c20: correspondence harness and property oracle for the user balance (property C20).
//
// It drives the REAL cache.SetUMoney / cache.DeUMoney / cache.MoneyOf on a private BBSHOME and a private SysV
// segment.  After every operation it prints the return value, the error class, Shm.Shm.Money[uid-1], the four
// Money bytes of record uid of .PASSWDS, the file length, a digest of the whole SHM money array and a digest of
// every other byte of the file; the Lean driver prints the same line from the model.
//
// The property oracle (judge) does not use the model: plain int64 arithmetic per slot, byte comparison of the
// whole file against the previous snapshot outside the four addressed bytes.
package main

import (
	"bytes"
	"encoding/binary"
	"errors"
	"flag"
	"fmt"
	"math"
	"os"
	"reflect"
	"runtime"
	"regexp"
	"strconv"
	"strings"
	"sync"
	"time"
	"unsafe"

	"github.com/Ptt-official-app/go-pttbbs/cache"
	"github.com/Ptt-official-app/go-pttbbs/cmbbs"
	"github.com/Ptt-official-app/go-pttbbs/ptt"
	"github.com/Ptt-official-app/go-pttbbs/ptttype"
	"github.com/Ptt-official-app/go-pttbbs/types"
	"verifharness/internal/bbsenv"
	"verifharness/internal/hx"
)

const (
	MAX   = int64(ptttype.MAX_USERS)
	minI  = int64(math.MinInt32)
	maxI  = int64(math.MaxInt32)
	nSlot = int(ptttype.MAX_USERS)
)

var (
	recSize  = int(ptttype.USEREC_RAW_SZ)
	moneyOff = int(unsafe.Offsetof(ptttype.USEREC_RAW.Money))
	moneySz  = int(unsafe.Sizeof(ptttype.USEREC_RAW.Money))
	levelOff = int(unsafe.Offsetof(ptttype.USEREC_RAW.UserLevel))
	llOff    = int(unsafe.Offsetof(ptttype.USEREC_RAW.LastLogin))
	emailOff = int(unsafe.Offsetof(ptttype.USEREC_RAW.Email))
	emailSz  = int(unsafe.Sizeof(ptttype.USEREC_RAW.Email))
	pwOff    = int(unsafe.Offsetof(ptttype.USEREC_RAW.PasswdHash))
	pwSz     = int(unsafe.Sizeof(ptttype.USEREC_RAW.PasswdHash))
	idOff    = int(unsafe.Offsetof(ptttype.USEREC_RAW.UserID))
	idSz     = int(unsafe.Sizeof(ptttype.USEREC_RAW.UserID))

	// the record copies the "caller" holds: slot -> the struct ptt.GetUser returned at the last `load`
	stale = map[int64]*ptttype.UserecRaw{}

	run *hx.Run
	env *bbsenv.Env
)

// ---- token syntax (the Lean driver implements the same rules) -----------------------

var reI32 = regexp.MustCompile(`^-?[0-9]{1,10}$`)

func parseI32(s string) (int64, bool) {
	if !reI32.MatchString(s) {
		return 0, false
	}
	v, err := strconv.ParseInt(s, 10, 64)
	if err != nil || v < minI || v > maxI {
		return 0, false
	}
	return v, true
}

func parseNat(s string, maxDigits int) (uint64, bool) {
	if len(s) == 0 || len(s) > maxDigits {
		return 0, false
	}
	for i := 0; i < len(s); i++ {
		if s[i] < '0' || s[i] > '9' {
			return 0, false
		}
	}
	v, err := strconv.ParseUint(s, 10, 64)
	return v, err == nil
}

func parseCsv(s string) ([]int64, bool) {
	if s == "-" {
		return nil, true
	}
	var out []int64
	for _, t := range strings.Split(s, ",") {
		v, ok := parseI32(t)
		if !ok {
			return nil, false
		}
		out = append(out, v)
	}
	return out, true
}

func csv(vs []int64) string {
	if len(vs) == 0 {
		return "-"
	}
	ss := make([]string, len(vs))
	for i, v := range vs {
		ss[i] = strconv.FormatInt(v, 10)
	}
	return strings.Join(ss, ",")
}

// ---- observation -------------------------------------------------------------------------

func fnv(parts ...[]byte) string {
	h := uint64(14695981039346656037)
	for _, p := range parts {
		for _, b := range p {
			h = (h ^ uint64(b)) * 1099511628211
		}
	}
	return fmt.Sprintf("%016x", h)
}

func readFile() ([]byte, bool) {
	b, err := os.ReadFile(ptttype.FN_PASSWD)
	if err != nil {
		return nil, false
	}
	return b, true
}

func shmNow() [nSlot]int32 { return cache.Shm.Shm.Money }

func shmDigest(a [nSlot]int32) string {
	b := make([]byte, 4*nSlot)
	for i, v := range a {
		binary.LittleEndian.PutUint32(b[4*i:], uint32(v))
	}
	return fnv(b)
}

func inArr(u int64) bool { return u >= 1 && u <= MAX }

func observe(u int64) string {
	shm := "-"
	arr := shmNow()
	if inArr(u) {
		shm = strconv.FormatInt(int64(arr[u-1]), 10)
	}
	f, ok := readFile()
	if !ok {
		return fmt.Sprintf("shm=%s disk=- len=- shmd=%s rest=-", shm, shmDigest(arr))
	}
	off := recSize*int(u-1) + moneyOff
	if inArr(u) && off+4 <= len(f) {
		return fmt.Sprintf("shm=%s disk=%s len=%d shmd=%s rest=%s", shm, hx.Hex(f[off:off+4]), len(f), shmDigest(arr), fnv(f[:off], f[off+4:]))
	}
	return fmt.Sprintf("shm=%s disk=- len=%d shmd=%s rest=%s", shm, len(f), shmDigest(arr), fnv(f))
}

func observe2(u int64) string {
	lvl := "-"
	if f, ok := readFile(); ok {
		off := recSize*int(u-1) + levelOff
		if inArr(u) && off+4 <= len(f) {
			lvl = hx.Hex(f[off : off+4])
		}
	}
	return observe(u) + " lvl=" + lvl
}

// encode: the serialisation PasswdUpdate writes (binary.Write, little endian).
func encode(r *ptttype.UserecRaw) []byte {
	var b bytes.Buffer
	if err := binary.Write(&b, binary.LittleEndian, r); err != nil {
		panic(err)
	}
	if b.Len() != recSize {
		panic("c20: a UserecRaw does not serialise to USEREC_RAW_SZ bytes")
	}
	return b.Bytes()
}

// names[u]: the user id registered for slot u in the SHM user hash ("" = free slot); see setupNames.
var (
	names      [nSlot + 1]string
	namesFree  = "?" // the free-slot set the hash was last loaded with (csv)
	namesDirty bool  // a registration changed the hash since then
	modeFlag   = flag.String("mode", "seq", "seq | concurrent")
)

func idOf(name string) *ptttype.UserID_t {
	id := &ptttype.UserID_t{}
	copy(id[:], name)
	return id
}

// slotName: the user id of slot u; a name nobody has for invalid slots.
func slotName(u int64) *ptttype.UserID_t {
	if inArr(u) {
		return idOf(names[u])
	}
	return idOf("nouser")
}

// setupNames loads the SHM user hash from a .PASSWDS whose slot u belongs to user "vuNN", except the slots in
// free, which are left without a user id (they are what a registration may be given).  ptt.GetUser finds a slot
// through that hash (cache.SearchUserRaw); only `newuser` changes it afterwards.  Account expiry is kept out:
// fixture accounts carry PERM_XEMPT and the clean-up marker is fresh (as in cmd/c15).
func setupNames(free []int64) {
	isFree := map[int64]bool{}
	for _, u := range free {
		isFree[u] = true
	}
	f := make([]byte, recSize*nSlot)
	for u := int64(1); u <= MAX; u++ {
		names[u] = ""
		if !isFree[u] {
			names[u] = fmt.Sprintf("vu%02d", u)
			base := recSize * int(u-1)
			copy(f[base+idOff:], names[u])
			binary.LittleEndian.PutUint32(f[base+levelOff:], uint32(ptttype.PERM_DEFAULT|ptttype.PERM_XEMPT))
		}
	}
	if err := os.WriteFile(ptttype.FN_PASSWD, f, 0o600); err != nil {
		panic(err)
	}
	_ = os.WriteFile(ptttype.FN_FRESH, []byte("fresh"), 0o644)
	if err := env.ResetSHM(); err != nil {
		fmt.Fprintln(os.Stderr, "c20: ResetSHM:", err)
		os.Exit(2)
	}
	for u := int64(0); u <= MAX+1; u++ {
		if inArr(u) && names[u] == "" {
			continue
		}
		got, err := cache.SearchUserRaw(slotName(u), nil)
		want := u
		if !inArr(u) {
			want = 0
		}
		if err != nil || int64(got) != want {
			fmt.Fprintf(os.Stderr, "c20: user hash lookup of slot %d gives %d (%v)\n", u, got, err)
			os.Exit(2)
		}
	}
	namesFree = csv(free)
	namesDirty = false
}

// parseFree: `free=<distinct valid slots>`
func parseFree(tok string) ([]int64, bool) {
	if !strings.HasPrefix(tok, "free=") {
		return nil, false
	}
	l, ok := parseCsv(tok[5:])
	if !ok || len(l) == 0 {
		return nil, false
	}
	seen := map[int64]bool{}
	for _, u := range l {
		if !inArr(u) || seen[u] {
			return nil, false
		}
		seen[u] = true
	}
	return l, true
}

var reEmail = regexp.MustCompile(`^[A-Za-z0-9@.]{1,40}$`)

var reIdent = regexp.MustCompile(`^[A-Za-z][A-Za-z0-9]{1,11}$`)

func errClass(err error) string {
	switch {
	case err == nil:
		return "ok"
	case errors.Is(err, cache.ErrInvalidUID):
		return "invalid-uid"
	case errors.Is(err, ptttype.ErrInvalidUserID):
		return "invalid-userid"
	default:
		return "io"
	}
}

// ---- the property oracle: plain arithmetic + byte diff -------------------------------------

type oracle struct {
	have     bool
	judged   bool // .PASSWDS exists and holds exactly MAX_USERS records
	bal      [nSlot + 1]int64
	nonneg   [nSlot + 1]bool // started >= 0, every set value >= 0, no overflow so far
	prevFile []byte
	prevOK   bool
	prevShm  [nSlot]int32
}

var P oracle

func (p *oracle) snapshot() {
	p.prevFile, p.prevOK = readFile()
	p.prevShm = shmNow()
}

func diskMoney(f []byte, u int64) (int64, bool) {
	off := recSize*int(u-1) + moneyOff
	if off+4 > len(f) {
		return 0, false
	}
	return int64(int32(binary.LittleEndian.Uint32(f[off:]))), true
}

// frame compares the file with the previous snapshot outside the Money bytes of slot u (u = 0: nothing may change).
func (p *oracle) frame(i int, line string, f []byte, u int64) {
	if u == 0 {
		p.frameRange(i, line, f, -1, -1)
		return
	}
	lo := recSize*int(u-1) + moneyOff
	p.frameRange(i, line, f, lo, lo+4)
}

// frameRange: every byte outside [lo, hi) is as in the previous snapshot.
func (p *oracle) frameRange(i int, line string, f []byte, lo, hi int) {
	if len(f) != len(p.prevFile) {
		run.Fail(i, "frame", fmt.Sprintf("%s: .PASSWDS length changed from %d to %d", line, len(p.prevFile), len(f)))
		return
	}
	for k := range f {
		if k >= lo && k < hi {
			continue
		}
		if f[k] != p.prevFile[k] {
			run.Fail(i, "frame", fmt.Sprintf("%s: byte %d of .PASSWDS (record %d, offset %d in the record) changed from %#02x to %#02x",
				line, k, k/recSize+1, k%recSize, p.prevFile[k], f[k]))
			return
		}
	}
}

func (p *oracle) frameShm(i int, line string, a [nSlot]int32, u int64) {
	for k := range a {
		if int64(k) == u-1 {
			continue
		}
		if a[k] != p.prevShm[k] {
			run.Fail(i, "frame:shm", fmt.Sprintf("%s: Shm.Money[%d] (slot %d) changed from %d to %d", line, k, k+1, p.prevShm[k], a[k]))
			return
		}
	}
}

// judge evaluates the property on what the implementation just did. Returns a branch label.
func (p *oracle) judge(i int, line, kind string, u, m int64, panicked bool, ret int64, errc string) string {
	defer p.snapshot()
	if !p.have {
		return "nostate"
	}
	arr := shmNow()
	f, fok := readFile()
	valid := inArr(u)
	if !p.judged {
		// malformed .PASSWDS (missing, short, long, torn): the file clauses are compared with the model only; the
		// balance in SHM must still follow plain arithmetic on every valid slot (it does not depend on the file)
		if valid && !panicked {
			cur := p.bal[u]
			switch kind {
			case "get":
				if ret != cur {
					run.Fail(i, "mismatch:arith", fmt.Sprintf("%s returned %d, Shm.Money of the slot holds %d (a .PASSWDS with fewer records than MAX_USERS does not make a valid slot empty)", line, ret, cur))
				}
			case "set", "de":
				exp, known := m, true
				if kind == "de" {
					switch {
					case m == minI:
						known = false
					case m < 0 && cur < -m:
						exp = 0
					default:
						exp = cur + m
					}
					if exp < minI || exp > maxI {
						known = false
					}
				}
				if known && int64(arr[u-1]) != exp {
					run.Fail(i, "mismatch:arith", fmt.Sprintf("%s with balance %d: plain arithmetic says %d, Shm.Money=%d", line, cur, exp, arr[u-1]))
				}
			}
		}
		if valid {
			p.bal[u] = int64(arr[u-1])
		}
		return "unjudged-file"
	}
	if !fok {
		run.Fail(i, "frame", line+": .PASSWDS disappeared")
		return "file-lost"
	}
	if kind == "get" {
		p.frame(i, line, f, 0)
		p.frameShm(i, line, arr, 0)
		if !valid {
			return "invalid" // MoneyOf on an invalid slot panics: recorded, not judged (it writes nothing)
		}
		if panicked {
			run.Fail(i, "crash:valid-slot", fmt.Sprintf("%s: panic: %s", line, hx.LastPanic))
			return "panic"
		}
		if ret != p.bal[u] {
			run.Fail(i, "mismatch:arith", fmt.Sprintf("%s returned %d, plain arithmetic says %d", line, ret, p.bal[u]))
		}
		return "read"
	}
	if kind == "syncquery" || kind == "load" {
		p.frame(i, line, f, 0)
		p.frameShm(i, line, arr, 0)
		if !valid {
			return "invalid"
		}
		if panicked {
			run.Fail(i, "crash:valid-slot", fmt.Sprintf("%s: panic: %s", line, hx.LastPanic))
			return "panic"
		}
		if errc != "ok" || lastRec == nil {
			run.Fail(i, "valid-slot-rejected", fmt.Sprintf("%s: valid slot refused (%s)", line, errc))
			return "refused"
		}
		if int64(lastRec.Money) != p.bal[u] {
			run.Fail(i, "mismatch:arith", fmt.Sprintf("%s: the record carries Money=%d, plain arithmetic says %d", line, lastRec.Money, p.bal[u]))
		}
		got := encode(lastRec)
		base := recSize * int(u-1)
		for k := 0; k < recSize; k++ {
			if k >= moneyOff && k < moneyOff+4 {
				continue
			}
			if got[k] != f[base+k] && !(isBoolOff(k) && (got[k] != 0) == (f[base+k] != 0)) {
				run.Fail(i, "query-record", fmt.Sprintf("%s: byte %d of the returned record is %#02x, .PASSWDS has %#02x", line, k, got[k], f[base+k]))
				break
			}
		}
		return "read"
	}
	if kind == "newuser" {
		if fs := strings.Fields(line); len(fs) >= 4 {
			line = strings.Join(fs[:4], " ") + " <record>"
		}
		if u == 0 { // refused before a slot was taken
			p.frame(i, line, f, 0)
			p.frameShm(i, line, arr, 0)
			return "rejected"
		}
		if !valid {
			run.Fail(i, "invalid-slot-accepted", fmt.Sprintf("%s: the id was registered at slot %d", line, u))
			return "invalid"
		}
		if panicked {
			run.Fail(i, "crash:valid-slot", fmt.Sprintf("%s: panic: %s", line, hx.LastPanic))
			return "panic"
		}
		prev := p.bal[u]
		shmV := int64(arr[u-1])
		diskV, dok := diskMoney(f, u)
		branch := "fresh-slot"
		if prev != 0 {
			branch = "reused-slot"
		}
		if errc != "ok" {
			run.Fail(i, "valid-slot-rejected", fmt.Sprintf("%s: registration at slot %d failed (%s)", line, u, errc))
		} else {
			if !dok || shmV != diskV {
				run.Fail(i, "mismatch:shm-disk", fmt.Sprintf("%s: Shm.Money=%d but .PASSWDS money=%d", line, shmV, diskV))
			}
			if shmV != m || (dok && diskV != m) {
				key := "mismatch:arith"
				if prev != m && (shmV == prev || diskV == prev) {
					key = "register:inherited-balance"
				}
				run.Fail(i, key, fmt.Sprintf("%s: the new account starts with %d; slot %d held %d before; now Shm.Money=%d, .PASSWDS money=%d", line, m, u, prev, shmV, diskV))
			}
			base := recSize * int(u-1)
			for k := 0; k < recSize && lastSent != nil; k++ {
				if k >= moneyOff && k < moneyOff+4 {
					continue
				}
				if f[base+k] != lastSent[k] {
					run.Fail(i, "frame:record", fmt.Sprintf("%s: byte %d of record %d is %#02x, the registration record has %#02x", line, k, u, f[base+k], lastSent[k]))
					break
				}
			}
		}
		p.frameRange(i, line, f, recSize*int(u-1), recSize*int(u))
		p.frameShm(i, line, arr, u)
		p.bal[u] = shmV
		if errc == "ok" {
			p.bal[u] = m
		}
		p.nonneg[u] = m >= 0
		return branch
	}
	if kind == "permupdate" {
		if !valid {
			if panicked {
				run.Fail(i, "crash:invalid-slot", fmt.Sprintf("%s: panic instead of an error: %s", line, hx.LastPanic))
			} else if errc == "ok" {
				run.Fail(i, "invalid-slot-accepted", fmt.Sprintf("%s: no error", line))
			}
			p.frame(i, line, f, 0)
			p.frameShm(i, line, arr, 0)
			return "invalid"
		}
		if panicked {
			run.Fail(i, "crash:valid-slot", fmt.Sprintf("%s: panic: %s", line, hx.LastPanic))
			return "panic"
		}
		shmV := int64(arr[u-1])
		diskV, dok := diskMoney(f, u)
		branch := "stale-equal"
		if m != p.bal[u] {
			branch = "stale-differs"
		}
		if errc != "ok" {
			key := "valid-slot-rejected"
			if u == MAX {
				key = "last-slot"
			}
			run.Fail(i, key, fmt.Sprintf("%s: valid slot %d of %d refused (%s)", line, u, MAX, errc))
		} else {
			if !dok || shmV != diskV {
				run.Fail(i, "mismatch:shm-disk", fmt.Sprintf("%s (a whole-record write from a copy carrying Money=%d): Shm.Money=%d but .PASSWDS money=%d", line, m, shmV, diskV))
			}
			if shmV != p.bal[u] {
				run.Fail(i, "mismatch:arith", fmt.Sprintf("%s: Shm.Money=%d, plain arithmetic says %d", line, shmV, p.bal[u]))
			}
			// every other byte of the record is the caller's copy (with the new UserLevel)
			base := recSize * int(u-1)
			for k := 0; k < recSize && lastSent != nil; k++ {
				if k >= moneyOff && k < moneyOff+4 {
					continue
				}
				if f[base+k] != lastSent[k] {
					run.Fail(i, "frame:record", fmt.Sprintf("%s: byte %d of record %d is %#02x, the caller's record has %#02x", line, k, u, f[base+k], lastSent[k]))
					break
				}
			}
		}
		p.frameRange(i, line, f, recSize*int(u-1), recSize*int(u))
		p.frameShm(i, line, arr, 0)
		return branch
	}
	// set / de
	if !valid {
		if panicked {
			run.Fail(i, "crash:invalid-slot", fmt.Sprintf("%s: panic instead of an error: %s", line, hx.LastPanic))
		} else if errc == "ok" {
			run.Fail(i, "invalid-slot-accepted", fmt.Sprintf("%s: returned %d without an error", line, ret))
		}
		p.frame(i, line, f, 0)
		p.frameShm(i, line, arr, 0)
		return "invalid"
	}
	if panicked {
		run.Fail(i, "crash:valid-slot", fmt.Sprintf("%s: panic: %s", line, hx.LastPanic))
		p.bal[u] = int64(arr[u-1])
		return "panic"
	}
	// expected value by plain arithmetic
	branch := "set"
	cur := p.bal[u]
	exp := m
	overflow := false
	if kind == "de" {
		switch {
		case m == minI:
			branch, overflow = "minint", true // -money does not exist in int32
		case m < 0 && cur < -m:
			branch, exp = "floor", 0
		case m < 0 && cur == -m:
			branch, exp = "exact", 0
		case m < 0:
			branch, exp = "debit", cur+m
		case m == 0:
			branch, exp = "zero", cur
		default:
			branch, exp = "credit", cur+m
		}
		if !overflow && (exp < minI || exp > maxI) {
			branch, overflow = "ovf", true
		}
	}
	shmV := int64(arr[u-1])
	diskV, dok := diskMoney(f, u)
	if errc != "ok" {
		key := "valid-slot-rejected"
		if u == MAX {
			key = "last-slot"
		}
		run.Fail(i, key, fmt.Sprintf("%s: valid slot %d of %d refused (%s); Shm.Money=%d, .PASSWDS money=%d", line, u, MAX, errc, shmV, diskV))
	} else if !dok || shmV != diskV {
		run.Fail(i, "mismatch:shm-disk", fmt.Sprintf("%s: Shm.Money=%d but .PASSWDS money=%d", line, shmV, diskV))
	}
	if !overflow && errc == "ok" {
		if ret != exp || shmV != exp || (dok && diskV != exp) {
			key := "mismatch:arith"
			if branch == "floor" {
				key = "debit-floor"
			}
			run.Fail(i, key, fmt.Sprintf("%s with balance %d: plain arithmetic says %d; returned %d, Shm.Money=%d, .PASSWDS money=%d", line, cur, exp, ret, shmV, diskV))
		}
	}
	if overflow || (kind == "set" && m < 0) {
		p.nonneg[u] = false
	}
	if p.nonneg[u] && shmV < 0 {
		run.Fail(i, "negative", fmt.Sprintf("%s with balance %d: balance became %d", line, cur, shmV))
	}
	p.frame(i, line, f, u)
	p.frameShm(i, line, arr, u)
	if overflow || errc != "ok" {
		p.bal[u] = shmV // recorded, not judged: continue from what the implementation holds
	} else {
		p.bal[u] = exp
	}
	return branch
}

// what the last syncquery/load returned, and the bytes of the record the last permupdate handed over (for the oracle)
var (
	lastRec  *ptttype.UserecRaw
	lastSent []byte
)

// offsets of the bool bytes of a UserecRaw, from the compiled type (reflect)
var boolList = func() []int {
	var out []int
	var walk func(t reflect.Type, base uintptr)
	walk = func(t reflect.Type, base uintptr) {
		switch t.Kind() {
		case reflect.Bool:
			out = append(out, int(base))
		case reflect.Array:
			for k := 0; k < t.Len(); k++ {
				walk(t.Elem(), base+uintptr(k)*t.Elem().Size())
			}
		case reflect.Struct:
			for k := 0; k < t.NumField(); k++ {
				walk(t.Field(k).Type, base+t.Field(k).Offset)
			}
		}
	}
	walk(reflect.TypeOf(ptttype.UserecRaw{}), 0)
	return out
}()

func isBoolOff(k int) bool {
	for _, b := range boolList {
		if b == k {
			return true
		}
	}
	return false
}

func boolCsv() string {
	ss := make([]string, len(boolList))
	for i, b := range boolList {
		ss[i] = strconv.Itoa(b)
	}
	if len(ss) == 0 {
		return "-"
	}
	return strings.Join(ss, ",")
}

// ---- executing one op line on the real code -------------------------------------------------

func fill(seed uint64, n int) []byte {
	x := seed
	b := make([]byte, n)
	for i := range b {
		x = x*6364136223846793005 + 1442695040888963407
		b[i] = byte(x >> 56)
	}
	return b
}

func slotClass(u int64) string {
	switch {
	case u == 1:
		return "first"
	case u == MAX:
		return "last"
	case u > 1 && u < MAX:
		return "mid"
	case u == 0:
		return "zero"
	case u < 0:
		return "neg"
	default:
		return "high"
	}
}

func doReset(ws []string) (string, string) {
	tail, ok1 := parseNat(ws[2], 6)
	seed, ok2 := parseNat(ws[3], 19)
	shm, ok3 := parseCsv(ws[4])
	disk, ok4 := parseCsv(ws[5])
	if !(ok1 && ok2 && ok3 && ok4) || len(shm) != nSlot {
		return "bad-op", "bad-op"
	}
	var free []int64
	if len(ws) == 7 {
		var ok bool
		if free, ok = parseFree(ws[6]); !ok {
			return "bad-op", "bad-op"
		}
	}
	// the remaining syntax checks, before anything is touched
	if ws[1] == "nofile" {
		if len(disk) != 0 || tail != 0 {
			return "bad-op", "bad-op"
		}
	} else if n64, ok := parseNat(ws[1], 4); !ok || len(disk) != int(n64) || int(n64) > 2*nSlot || int(tail) >= recSize {
		return "bad-op", "bad-op"
	}
	if namesDirty || namesFree != csv(free) {
		setupNames(free)
	}
	_ = os.WriteFile(ptttype.FN_FRESH, []byte("fresh"), 0o644)
	var arr [nSlot]int32
	for i, v := range shm {
		arr[i] = int32(v)
	}
	label := "reset:complete"
	if ws[1] == "nofile" {
		if len(disk) != 0 || tail != 0 {
			return "bad-op", "bad-op"
		}
		_ = os.Remove(ptttype.FN_PASSWD)
		cache.Shm.Shm.Money = arr
		ptttype.USE_COOLDOWN = true
		P = oracle{have: true, judged: false}
		stale = map[int64]*ptttype.UserecRaw{}
		P.snapshot()
		return fmt.Sprintf("ok len=- shmd=%s rest=-", shmDigest(arr)), "reset:nofile"
	}
	n64, ok := parseNat(ws[1], 4)
	n := int(n64)
	if !ok || len(disk) != n || n > 2*nSlot || int(tail) >= recSize {
		return "bad-op", "bad-op"
	}
	f := fill(seed, recSize*n+int(tail))
	for r, v := range disk {
		binary.LittleEndian.PutUint32(f[recSize*r+moneyOff:], uint32(int32(v)))
	}
	// the user id of every complete record that belongs to a slot: the one the SHM user hash was loaded with
	for u := 1; u <= nSlot && recSize*u <= len(f); u++ {
		id := make([]byte, idSz)
		copy(id, names[u])
		copy(f[recSize*(u-1)+idOff:], id)
	}
	if err := os.WriteFile(ptttype.FN_PASSWD, f, 0o600); err != nil {
		panic(err)
	}
	cache.Shm.Shm.Money = arr
	ptttype.USE_COOLDOWN = true
	P = oracle{have: true, judged: n == nSlot && tail == 0}
	stale = map[int64]*ptttype.UserecRaw{}
	aged = map[int64]ageInfo{}
	if P.judged {
		synced := true
		for s := 1; s <= nSlot; s++ {
			P.bal[s] = shm[s-1]
			P.nonneg[s] = shm[s-1] >= 0
			if shm[s-1] != disk[s-1] {
				synced = false
			}
		}
		if !synced {
			label = "reset:unsynced"
		}
	} else {
		label = "reset:malformed-file"
	}
	P.snapshot()
	return fmt.Sprintf("ok len=%d shmd=%s rest=%s", len(f), shmDigest(arr), fnv(f)), label
}

type result struct {
	kind     string
	u, m     int64
	panicked bool
	ret      int64
	errc     string
}

func exec(line string) (out, label string, res *result) {
	ws := strings.Fields(line)
	if len(ws) == 0 {
		return "bad-op", "bad-op", nil
	}
	switch {
	case ws[0] == "layout" && len(ws) == 1:
		return fmt.Sprintf("max=%d sz=%d off=%d fsz=%d lvl=%d bools=%s", MAX, recSize, moneyOff, moneySz, levelOff, boolCsv()), "layout", nil
	case ws[0] == "reset" && (len(ws) == 6 || len(ws) == 7):
		o, l := doReset(ws)
		if len(ws) == 7 && l != "bad-op" {
			l += "+free"
		}
		return o, l, nil
	case ws[0] == "config" && len(ws) == 2:
		if !P.have || (ws[1] != "0" && ws[1] != "1") {
			return "bad-op", "bad-op", nil
		}
		ptttype.USE_COOLDOWN = ws[1] == "1"
		return "ok", "config:cooldown=" + ws[1], nil
	case ws[0] == "loaduhash" && len(ws) == 2:
		o, l := doLoadUHash(ws)
		return o, l, nil
	case ws[0] == "age" && (len(ws) == 4 || len(ws) == 5):
		o, l := doAge(ws)
		return o, l, nil
	case ws[0] == "expire" && (len(ws) == 3 || len(ws) == 6):
		o, l := doExpire(ws)
		return o, l, nil
	case ws[0] == "pokerec" && len(ws) == 4:
		o, l := doPokeRec(ws)
		return o, l, nil
	case ws[0] == "resetconc" && len(ws) == 4:
		o, l := doConc(ws)
		return o, l, nil
	case ws[0] == "resetconcfld" && len(ws) == 4:
		o, l := doConcFld(ws)
		return o, l, nil
	case ws[0] == "setuserid" && len(ws) == 3:
		u, ok := parseI32(ws[1])
		if !ok || !P.have || !reIdent.MatchString(ws[2]) {
			return "bad-op", "bad-op", nil
		}
		var err error
		o := hx.CallSync(func() string { err = cache.SetUserID(ptttype.UID(u), idOf(ws[2])); return "" })
		if o == "PANIC" {
			pendingFails = append(pendingFails, pending{"crash:invalid-slot", line + ": panic: " + hx.LastPanic})
			P.snapshot()
			return "PANIC " + observe2(u), "setuserid:PANIC", nil
		}
		if err == nil && inArr(u) {
			names[u] = ws[2]
			namesDirty = true
		}
		// oracle: renaming / re-assigning a slot moves no balance: SHM money and .PASSWDS exactly as before
		now := shmNow()
		for k := range now {
			if now[k] != P.prevShm[k] {
				d := int64(0)
				if f, ok := readFile(); ok {
					d, _ = diskMoney(f, int64(k+1))
				}
				pendingFails = append(pendingFails, pending{"mismatch:shm-disk", fmt.Sprintf(
					"%s: Shm.Money of slot %d went from %d to %d although no money operation was made; .PASSWDS money=%d, plain arithmetic says %d",
					line, k+1, P.prevShm[k], now[k], d, P.bal[k+1])})
				break
			}
		}
		if f, ok := readFile(); ok && P.prevOK {
			P.frameRange(opCount, line, f, -1, -1)
		}
		P.snapshot()
		return errClass(err) + " " + observe2(u), "setuserid:" + slotClass(u) + ":" + errClass(err), nil
	case ws[0] == "chemail" && len(ws) == 3:
		u, ok := parseI32(ws[1])
		if !ok || !P.have || !reEmail.MatchString(ws[2]) {
			return "bad-op", "bad-op", nil
		}
		if inArr(u) && names[u] == "" {
			return "no-name", "chemail:no-name", nil
		}
		em := &ptttype.Email_t{}
		copy(em[:], ws[2])
		var err error
		o := hx.CallSync(func() string { err = ptt.ChangeEmail(slotName(u), em); return "" })
		if o == "PANIC" {
			pendingFails = append(pendingFails, pending{"crash:valid-slot", line + ": panic: " + hx.LastPanic})
			P.snapshot()
			return "PANIC " + observe2(u), "chemail:PANIC", nil
		}
		// oracle: a field writer changes the Email field of that record and nothing else; SHM untouched
		if P.judged {
			if f, ok := readFile(); ok {
				lo, hi := -1, -1
				if inArr(u) && err == nil {
					lo = recSize*int(u-1) + emailOff
					hi = lo + emailSz
				}
				P.frameRange(opCount, line, f, lo, hi)
				P.frameShm(opCount, line, shmNow(), 0)
			}
		}
		P.snapshot()
		return errClass(err) + " " + observe2(u), "chemail:" + slotClass(u) + ":" + errClass(err), nil
	case ws[0] == "resetconcrec" && len(ws) == 4:
		o, l := doConcRec(ws)
		return o, l, nil
	case ws[0] == "newuser" && (len(ws) == 3 || len(ws) == 5):
		return doNewUser(ws)
	case (ws[0] == "set" || ws[0] == "de") && len(ws) == 3:
		u, ok1 := parseI32(ws[1])
		m, ok2 := parseI32(ws[2])
		if !ok1 || !ok2 || !P.have {
			return "bad-op", "bad-op", nil
		}
		r := &result{kind: ws[0], u: u, m: m}
		var v int32
		var err error
		o := hx.CallSync(func() string {
			if ws[0] == "set" {
				v, err = cache.SetUMoney(ptttype.UID(u), int32(m))
			} else {
				v, err = cache.DeUMoney(ptttype.UID(u), int32(m))
			}
			return ""
		})
		if o == "PANIC" {
			r.panicked = true
			return "PANIC - " + observe(u), ws[0] + ":" + slotClass(u), r
		}
		r.ret, r.errc = int64(v), errClass(err)
		return fmt.Sprintf("%d %s %s", v, r.errc, observe(u)), ws[0] + ":" + slotClass(u), r
	case (ws[0] == "syncquery" || ws[0] == "load") && len(ws) == 2:
		u, ok := parseI32(ws[1])
		if !ok || !P.have {
			return "bad-op", "bad-op", nil
		}
		if inArr(u) && names[u] == "" {
			return "no-name", ws[0] + ":no-name", nil // a slot without a user id is not reachable through ptt.GetUser
		}
		r := &result{kind: ws[0], u: u}
		var rec *ptttype.UserecRaw
		var err error
		lastRec = nil
		o := hx.CallSync(func() string { rec, err = ptt.GetUser(slotName(u)); return "" })
		if o == "PANIC" {
			r.panicked = true
			return "PANIC money=- recd=- " + observe2(u), ws[0] + ":" + slotClass(u), r
		}
		r.errc = errClass(err)
		if err != nil || rec == nil {
			return fmt.Sprintf("%s money=- recd=- %s", r.errc, observe2(u)), ws[0] + ":" + slotClass(u), r
		}
		lastRec = rec
		if ws[0] == "load" {
			cp := *rec
			stale[u] = &cp
		}
		b := encode(rec)
		r.ret = int64(rec.Money)
		return fmt.Sprintf("ok money=%d recd=%s %s", rec.Money, fnv(b[:moneyOff], b[moneyOff+4:]), observe2(u)), ws[0] + ":" + slotClass(u), r
	case ws[0] == "permupdate" && len(ws) == 4:
		u, ok1 := parseI32(ws[1])
		m, ok2 := parseI32(ws[2])
		perm, ok3 := parseNat(ws[3], 10)
		if !ok1 || !ok2 || !ok3 || perm > math.MaxUint32 || !P.have {
			return "bad-op", "bad-op", nil
		}
		r := &result{kind: "permupdate", u: u, m: m}
		cp := stale[u]
		if cp == nil {
			cp = &ptttype.UserecRaw{}
			stale[u] = cp
		}
		cp.Money = int32(m)
		sent := *cp
		sent.UserLevel = ptttype.PERM(perm)
		lastSent = encode(&sent)
		var got ptttype.PERM
		var err error
		o := hx.CallSync(func() string {
			got, err = ptt.SetUserPerm(&ptttype.UserecRaw{}, ptttype.UID(u), cp, ptttype.PERM(perm))
			return ""
		})
		if o == "PANIC" {
			r.panicked = true
			return "PANIC - " + observe2(u), "permupdate:" + slotClass(u), r
		}
		r.ret, r.errc = int64(got), errClass(err)
		return fmt.Sprintf("%d %s %s", got, r.errc, observe2(u)), "permupdate:" + slotClass(u), r
	case ws[0] == "get" && len(ws) == 2:
		u, ok := parseI32(ws[1])
		if !ok || !P.have {
			return "bad-op", "bad-op", nil
		}
		r := &result{kind: "get", u: u}
		var v int32
		o := hx.CallSync(func() string { v = cache.MoneyOf(ptttype.UID(u)); return "" })
		if o == "PANIC" {
			r.panicked = true
			return "PANIC - " + observe(u), "get:" + slotClass(u), r
		}
		r.ret, r.errc = int64(v), "ok"
		return fmt.Sprintf("%d ok %s", v, observe(u)), "get:" + slotClass(u), r
	}
	return "bad-op", "bad-op", nil
}

var opCount int // == the index hx.Run.Op is going to assign (every op goes through do)

// refreshNames: the user ids the SHM holds now (after a load or reload of the user hash).
func refreshNames() {
	for u := 1; u <= nSlot; u++ {
		names[u] = types.CstrToString(cache.Shm.Shm.Userid[u-1][:])
	}
	namesDirty = true
}

func cstrOf(b []byte) string {
	if i := bytes.IndexByte(b, 0); i >= 0 {
		b = b[:i]
	}
	return string(b)
}

// doLoadUHash: `loaduhash 0` = a fresh start (cache.Shm.Reset(), cache.LoadUHash()), `loaduhash 1` = an on-the-fly
// reload (cache.LoadUHash() on the live segment), under the current ptttype.USE_COOLDOWN.
// Oracle (complete .PASSWDS only): after a fresh load every slot's SHM money is its record's Money; after a reload
// the slots whose owner changed hold their record's Money and all others keep their SHM value; the file is untouched.
func doLoadUHash(ws []string) (string, string) {
	if !P.have || (ws[1] != "0" && ws[1] != "1") {
		return "bad-op", "bad-op"
	}
	onfly := ws[1] == "1"
	line := strings.Join(ws, " ") + fmt.Sprintf(" (USE_COOLDOWN=%v)", ptttype.USE_COOLDOWN)
	idsBefore := cache.Shm.Shm.Userid
	shmBefore := shmNow()
	if !onfly { // what Shm.Reset() leaves
		idsBefore = [nSlot]ptttype.UserID_t{}
		shmBefore = [nSlot]int32{}
	}
	var err error
	if !onfly {
		cache.Shm.Reset()
	}
	// LoadUHash fills a never-loaded segment from scratch and any other one on the fly
	onfly = !(cache.Shm.Shm.Number == 0 && cache.Shm.Shm.Loaded == 0)
	o := hx.CallSync(func() string {
		err = cache.LoadUHash()
		return ""
	})
	refreshNames()
	cls := errClass(err)
	if o == "PANIC" {
		cls = "PANIC"
	}
	now := shmNow()
	f, fok := readFile()
	label := "loaduhash:fresh"
	if onfly {
		label = "loaduhash:onfly"
	}
	if !ptttype.USE_COOLDOWN {
		label += ":nocooldown"
	}
	if P.judged && fok {
		if cls != "ok" {
			pendingFails = append(pendingFails, pending{"loader-failed", fmt.Sprintf("%s: %s %s", line, cls, hx.LastPanic)})
		}
		nChanged := 0
		for u := int64(1); u <= MAX; u++ {
			base := recSize * int(u-1)
			changed := !onfly || cstrOf(f[base+idOff:base+idOff+idSz]) != cstrOf(idsBefore[u-1][:])
			d, _ := diskMoney(f, u)
			want := int64(shmBefore[u-1])
			key, why := "frame:shm", "the owner of the slot did not change, the loader must leave its SHM money alone"
			if changed {
				nChanged++
				want = d
				key, why = "mismatch:shm-disk", "the slot was (re)filled from its record"
			}
			if int64(now[u-1]) != want {
				pendingFails = append(pendingFails, pending{key, fmt.Sprintf("%s: slot %d: Shm.Money=%d, .PASSWDS money=%d, Shm.Money before=%d (%s)", line, u, now[u-1], d, shmBefore[u-1], why)})
				break
			}
		}
		if onfly && nChanged > 0 {
			label += ":owner-changed"
		}
		if len(f) != len(P.prevFile) || !bytes.Equal(f, P.prevFile) {
			pendingFails = append(pendingFails, pending{"frame", line + ": the loader changed .PASSWDS"})
		}
	} else {
		label += ":unjudged-file"
	}
	for u := 1; u <= nSlot; u++ {
		P.bal[u] = int64(now[u-1])
		P.nonneg[u] = now[u-1] >= 0
	}
	P.snapshot()
	ids := cache.Shm.Shm.Userid
	var flat []byte
	for i := range ids {
		flat = append(flat, ids[i][:]...)
	}
	filed := "len=- rest=-"
	if fok {
		filed = fmt.Sprintf("len=%d rest=%s", len(f), fnv(f))
	}
	if cls != "ok" {
		label += ":" + cls
	}
	return fmt.Sprintf("%s idd=%s shmd=%s %s", cls, fnv(flat), shmDigest(now), filed), label
}

// doPokeRec: `pokerec u <id|-|=> money`: an edit of .PASSWDS by somebody else (a maintenance tool): not code under test.
func doPokeRec(ws []string) (string, string) {
	u, ok1 := parseI32(ws[1])
	m, ok2 := parseI32(ws[3])
	f, fok := readFile()
	if !P.have || !ok1 || !ok2 || !fok || !inArr(u) || recSize*int(u) > len(f) {
		return "bad-op", "bad-op"
	}
	if !(ws[2] == "-" || ws[2] == "=" || reIdent.MatchString(ws[2])) {
		return "bad-op", "bad-op"
	}
	base := recSize * int(u-1)
	if ws[2] != "=" {
		id := make([]byte, idSz)
		if ws[2] != "-" {
			copy(id, ws[2])
		}
		copy(f[base+idOff:], id)
	}
	binary.LittleEndian.PutUint32(f[base+moneyOff:], uint32(int32(m)))
	if err := os.WriteFile(ptttype.FN_PASSWD, f, 0o600); err != nil {
		panic(err)
	}
	P.snapshot()
	return "ok " + observe2(u), "pokerec"
}

// accounts the history aged: slot -> (days since the last login, UserLevel)
type ageInfo struct {
	days int64
	perm uint32
}

var aged = map[int64]ageInfo{}

// doAge: `age u days perm [lastlogin]`: an edit of .PASSWDS by somebody else: LastLogin = now - days, UserLevel = perm.
func doAge(ws []string) (string, string) {
	u, ok1 := parseI32(ws[1])
	days, ok2 := parseNat(ws[2], 5)
	perm, ok3 := parseNat(ws[3], 10)
	ll := int64(types.NowTS()) - int64(days)*86400
	ok4 := true
	if len(ws) == 5 {
		ll, ok4 = parseI32(ws[4])
	}
	f, fok := readFile()
	if !P.have || !ok1 || !ok2 || !ok3 || !ok4 || perm > math.MaxUint32 || !fok || !inArr(u) || recSize*int(u) > len(f) || ll < minI || ll > maxI {
		return "bad-op", "bad-op"
	}
	base := recSize * int(u-1)
	binary.LittleEndian.PutUint32(f[base+llOff:], uint32(int32(ll)))
	binary.LittleEndian.PutUint32(f[base+levelOff:], uint32(perm))
	if err := os.WriteFile(ptttype.FN_PASSWD, f, 0o600); err != nil {
		panic(err)
	}
	aged[u] = ageInfo{int64(days), uint32(perm)}
	canonLine = fmt.Sprintf("age %d %d %d %d", u, days, perm, ll)
	P.snapshot()
	return "ok " + observe2(u), "age"
}

func killedShape(rec []byte) bool {
	for k, b := range rec {
		if (k < moneyOff || k >= moneyOff+4) && b != 0 {
			return false
		}
	}
	return true
}

// doExpire: `expire id startMoney [killed slot hex]`: ptt.SetupNewUser with a stale .fresh marker, so that a table
// without a free slot runs the clean-up sweep (tryCleanUser -> checkAndExpireAccount -> killUser).  Which accounts
// were removed is observed (their record became empty); the oracle judges EVERY slot afterwards: SHM money untouched
// and equal to the record's Money (a removed account's balance included), a record either unchanged or cleared.
func doExpire(ws []string) (string, string) {
	m, okm := parseI32(ws[2])
	ok := okm && reIdent.MatchString(ws[1])
	if len(ws) == 6 {
		kl, okk := parseCsv(ws[3])
		sl, oks := parseI32(ws[4])
		var hexOK bool
		func() {
			defer func() { _ = recover() }()
			hexOK = ws[5] != "-" && len(hx.UnHex(ws[5])) == recSize
		}()
		ok = ok && okk && oks && sl >= 0 && hexOK
		for _, k := range kl {
			ok = ok && k >= 2 && k <= MAX
		}
	}
	before, fok := readFile()
	if !ok || !P.have || !fok || len(before) != recSize*nSlot {
		return "bad-op", "bad-op"
	}
	id := ws[1]
	line := "expire " + id + " " + ws[2]
	rec := newUserRec(id, m)
	lastSent = encode(rec)
	old := time.Now().Add(-2 * time.Hour)
	_ = os.Chtimes(ptttype.FN_FRESH, old, old)
	had, _ := cache.SearchUserRaw(idOf(id), nil)
	shmBefore := shmNow()
	var err error
	o := hx.CallSync(func() string { err = ptt.SetupNewUser(rec); return "" })
	_ = os.WriteFile(ptttype.FN_FRESH, []byte("fresh"), 0o644)
	after, _ := readFile()
	now := shmNow()
	got, _ := cache.SearchUserRaw(idOf(id), nil)
	slot := int64(got)
	if had != 0 || (err != nil && got == 0) || (o == "PANIC" && got == 0) {
		slot = 0
	}
	var killed []int64
	if len(after) == len(before) {
		for u := int64(1); u <= MAX; u++ {
			b, a := before[recSize*int(u-1):recSize*int(u)], after[recSize*int(u-1):recSize*int(u)]
			if u != slot && !bytes.Equal(a, b) && killedShape(a) {
				killed = append(killed, u)
			}
		}
	}
	canonLine = fmt.Sprintf("expire %s %d %s %d %s", id, m, csv(killed), slot, hx.Hex(lastSent))
	// ---- oracle ----
	if P.judged {
		isKilled := map[int64]bool{}
		for _, k := range killed {
			isKilled[k] = true
		}
		fails := map[string]bool{}
		fail := func(key, what string) {
			if !fails[key] {
				fails[key] = true
				pendingFails = append(pendingFails, pending{key, line + ": " + what})
			}
		}
		if o == "PANIC" {
			fail("crash:valid-slot", "panic: "+hx.LastPanic)
		}
		if len(after) != len(before) {
			fail("frame", fmt.Sprintf(".PASSWDS length changed from %d to %d", len(before), len(after)))
		} else {
			for u := int64(1); u <= MAX; u++ {
				b, a := before[recSize*int(u-1):recSize*int(u)], after[recSize*int(u-1):recSize*int(u)]
				d, _ := diskMoney(after, u)
				if u == slot {
					if int64(now[u-1]) != m || d != m {
						fail("register:inherited-balance", fmt.Sprintf("the new account at slot %d starts with %d: Shm.Money=%d, .PASSWDS money=%d", u, m, now[u-1], d))
					}
					P.bal[u] = m
					continue
				}
				if now[u-1] != shmBefore[u-1] {
					fail("frame:shm", fmt.Sprintf("slot %d: Shm.Money changed from %d to %d (no money operation was made)", u, shmBefore[u-1], now[u-1]))
				}
				switch {
				case isKilled[u]:
					if d != int64(now[u-1]) {
						fail("mismatch:shm-disk", fmt.Sprintf("slot %d (account removed by the clean-up): Shm.Money=%d but .PASSWDS money=%d; plain arithmetic says %d", u, now[u-1], d, P.bal[u]))
					}
				case !bytes.Equal(a, b):
					fail("frame", fmt.Sprintf("record %d changed although its account was not removed", u))
				}
				if ai, ok := aged[u]; ok {
					exempt := ai.perm&uint32(ptttype.PERM_XEMPT) != 0 || u == 1 || ai.days <= 10
					full := true // no slot without a user id in the SHM hash: the registration had to run the clean-up
					for w := 1; w <= nSlot; w++ {
						full = full && names[w] != ""
					}
					if ai.days >= 400 && !exempt && !isKilled[u] && slot == 0 && full && b[idOff] != 0 && !killedShape(b) {
						fail("expiry-not-run", fmt.Sprintf("slot %d (last login %d days ago, level %#x) was not removed: the clean-up did not run", u, ai.days, ai.perm))
					}
					if exempt && isKilled[u] {
						fail("expiry-killed-exempt", fmt.Sprintf("slot %d (last login %d days ago, level %#x) must not expire but was removed", u, ai.days, ai.perm))
					}
				}
			}
		}
	}
	if slot != 0 {
		names[slot] = id
		namesDirty = true
	}
	for u := 1; u <= nSlot; u++ {
		if int64(u) != slot {
			P.bal[u] = int64(now[u-1])
		}
	}
	P.snapshot()
	cls := "rejected"
	if slot != 0 {
		cls = errClass(err)
	}
	if o == "PANIC" {
		cls = "PANIC"
	}
	filed := fmt.Sprintf("len=%d rest=%s", len(after), fnv(after))
	return fmt.Sprintf("%s killed=%d shmd=%s %s", cls, len(killed), shmDigest(now), filed), fmt.Sprintf("expire:killed=%d", len(killed))
}

// newUserRec: the registration record (deterministic: no wall-clock fields).
func newUserRec(id string, m int64) *ptttype.UserecRaw {
	u := &ptttype.UserecRaw{}
	copy(u.UserID[:], id)
	copy(u.Nickname[:], "verif")
	u.Version = ptttype.PASSWD_VERSION
	u.FirstLogin = types.Time4(1700000000)
	u.LastLogin = types.Time4(1700000000)
	u.UserLevel = ptttype.PERM_DEFAULT | ptttype.PERM_XEMPT
	u.Money = int32(m)
	return u
}

// doNewUser: `newuser <id> <startMoney>` (generator form) or `newuser <id> <startMoney> <slot> <hex>` (recorded
// form; slot and record are re-observed).  ptt.SetupNewUser on the real tables; the slot the id got is looked up
// in the SHM user hash afterwards.
func doNewUser(ws []string) (string, string, *result) {
	m, okm := parseI32(ws[2])
	ok := okm && reIdent.MatchString(ws[1])
	if len(ws) == 5 {
		sl, oks := parseI32(ws[3])
		var hexOK bool
		func() {
			defer func() { _ = recover() }()
			hexOK = ws[4] != "-" && len(hx.UnHex(ws[4])) == recSize
		}()
		ok = ok && oks && sl >= 0 && hexOK
	}
	if !ok || !P.have {
		return "bad-op", "bad-op", nil
	}
	id := ws[1]
	rec := newUserRec(id, m)
	lastSent = encode(rec)
	before, _ := cache.SearchUserRaw(idOf(id), nil)
	var err error
	o := hx.CallSync(func() string { err = ptt.SetupNewUser(rec); return "" })
	after, _ := cache.SearchUserRaw(idOf(id), nil)
	slot := int64(after)
	if before != 0 || (o != "PANIC" && err != nil && after == 0) {
		slot = 0 // refused: the id exists already, or no slot was taken
	}
	if o == "PANIC" && after == 0 {
		slot = 0
	}
	canonLine = fmt.Sprintf("newuser %s %d %d %s", id, m, slot, hx.Hex(lastSent))
	r := &result{kind: "newuser", u: slot, m: m}
	if slot == 0 {
		r.errc = "rejected"
		if o == "PANIC" {
			r.panicked = true
		}
		return "rejected", "newuser", r
	}
	names[slot] = id
	namesDirty = true
	if o == "PANIC" {
		r.panicked = true
		return "PANIC " + observe2(slot), "newuser:" + slotClass(slot), r
	}
	r.errc = errClass(err)
	return r.errc + " " + observe2(slot), "newuser:" + slotClass(slot), r
}

// concSlots: G pairwise different slots, the first and the last among them.
func concSlots(g int) []int64 {
	var out []int64
	lo, hi := int64(1), MAX
	for len(out) < g {
		out = append(out, lo)
		if len(out) < g {
			out = append(out, hi)
		}
		lo++
		hi--
	}
	return out
}

// doConc: `resetconc G N seed`: G goroutines, each the only writer of its own slot, N SetUMoney/DeUMoney calls each,
// all at the same time.  Afterwards every byte of .PASSWDS is compared with the expected image (the start image with
// each slot's Money = the last value of its goroutine by plain arithmetic) and SHM likewise.  The model is not asked.
func doConc(ws []string) (string, string) {
	g64, ok1 := parseNat(ws[1], 2)
	n64, ok2 := parseNat(ws[2], 6)
	seed, ok3 := parseNat(ws[3], 19)
	G, N := int(g64), int(n64)
	if !(ok1 && ok2 && ok3) || G < 1 || 2*G > nSlot || N < 1 || N > 100000 {
		return "bad-op", "bad-op"
	}
	if namesDirty || namesFree != "-" {
		setupNames(nil)
	}
	start := fill(seed, recSize*nSlot)
	var arr [nSlot]int32
	for s := 0; s < nSlot; s++ {
		arr[s] = int32(1000 * (s + 1))
		binary.LittleEndian.PutUint32(start[recSize*s+moneyOff:], uint32(arr[s]))
	}
	if err := os.WriteFile(ptttype.FN_PASSWD, start, 0o600); err != nil {
		panic(err)
	}
	cache.Shm.Shm.Money = arr
	slots := concSlots(G)
	final := make([]int64, G)
	firstBad := make([]string, G)
	var wg sync.WaitGroup
	gate := make(chan struct{})
	for k := 0; k < G; k++ {
		wg.Add(1)
		go func(k int) {
			defer wg.Done()
			r := hx.NewRand(seed*1000 + uint64(k) + 1)
			u := slots[k]
			bal := int64(arr[u-1])
			<-gate
			res := hx.CallSync(func() string {
				for i := 0; i < N; i++ {
					var got int32
					var err error
					var call string
					if r.Intn(3) == 0 {
						v := int64(r.Intn(1000000))
						call = fmt.Sprintf("SetUMoney(%d, %d)", u, v)
						got, err = cache.SetUMoney(ptttype.UID(u), int32(v))
						bal = v
					} else {
						d := int64(r.Intn(4001)) - 2000
						call = fmt.Sprintf("DeUMoney(%d, %d)", u, d)
						got, err = cache.DeUMoney(ptttype.UID(u), int32(d))
						if d < 0 && bal < -d {
							bal = 0
						} else {
							bal += d
						}
					}
					if (err != nil || int64(got) != bal) && firstBad[k] == "" {
						firstBad[k] = fmt.Sprintf("call %d of goroutine %d: %s returned (%d, %v), plain arithmetic says %d", i, k, call, got, err, bal)
					}
				}
				return ""
			})
			if res == "PANIC" && firstBad[k] == "" {
				firstBad[k] = fmt.Sprintf("goroutine %d panicked: %s", k, hx.LastPanic)
			}
			final[k] = bal
		}(k)
	}
	close(gate)
	wg.Wait()
	line := strings.Join(ws, " ")
	want := append([]byte{}, start...)
	for k, u := range slots {
		binary.LittleEndian.PutUint32(want[recSize*int(u-1)+moneyOff:], uint32(int32(final[k])))
	}
	for _, b := range firstBad {
		if b != "" {
			pendingFails = append(pendingFails, pending{"mismatch:arith", line + ": " + b})
			break
		}
	}
	got, _ := readFile()
	if len(got) != len(want) {
		pendingFails = append(pendingFails, pending{"frame:concurrent", fmt.Sprintf("%s: .PASSWDS is %d bytes long, expected %d", line, len(got), len(want))})
	} else {
		for k := range want {
			if got[k] != want[k] {
				rec, off := k/recSize+1, k%recSize
				what := "outside every Money field"
				if off >= moneyOff && off < moneyOff+4 {
					what = "inside the Money field"
				}
				pendingFails = append(pendingFails, pending{"frame:concurrent", fmt.Sprintf(
					"%s (%d goroutines x %d calls, each on its own slot %v): byte %d of .PASSWDS (record %d, offset %d, %s) is %#02x, expected %#02x",
					line, G, N, slots, k, rec, off, what, got[k], want[k])})
				break
			}
		}
	}
	now := shmNow()
	for k, u := range slots {
		d, _ := diskMoney(got, u)
		if int64(now[u-1]) != final[k] {
			pendingFails = append(pendingFails, pending{"mismatch:arith", fmt.Sprintf("%s: Shm.Money[slot %d]=%d, plain arithmetic says %d", line, u, now[u-1], final[k])})
			break
		}
		if int64(now[u-1]) != d {
			pendingFails = append(pendingFails, pending{"mismatch:shm-disk", fmt.Sprintf("%s: slot %d: Shm.Money=%d but .PASSWDS money=%d", line, u, now[u-1], d)})
			break
		}
	}
	for s := 0; s < nSlot; s++ {
		owned := false
		for _, u := range slots {
			if int(u-1) == s {
				owned = true
			}
		}
		if !owned && now[s] != arr[s] {
			pendingFails = append(pendingFails, pending{"frame:shm", fmt.Sprintf("%s: Shm.Money[%d] changed from %d to %d", line, s, arr[s], now[s])})
			break
		}
	}
	P = oracle{} // the model does not follow this op: the next history starts with a reset
	stale = map[int64]*ptttype.UserecRaw{}
	return "done", fmt.Sprintf("conc:%dx%d", G, N)
}

// decodeRec: bytes -> struct, as cmbbs.PasswdQuery does it.
func decodeRec(b []byte) *ptttype.UserecRaw {
	r := &ptttype.UserecRaw{}
	if err := binary.Read(bytes.NewReader(b), binary.LittleEndian, r); err != nil {
		panic(err)
	}
	return r
}

// sameRecord: got is the serialisation of a struct read from want (bool bytes are normalised by encoding/binary).
func sameRecord(got, want []byte) int {
	for k := range want {
		if got[k] != want[k] && !(isBoolOff(k) && (got[k] != 0) == (want[k] != 0)) {
			return k
		}
	}
	return -1
}

// doConcRec: `resetconcrec G N seed`: whole-record writers of DIFFERENT users at the same time.  G goroutines, each
// the only writer of its own slot, N calls each out of: SetUMoney / DeUMoney, ptt.SetUserPerm with the goroutine's
// own copy of its record (the whole-record writer cmbbs.PasswdUpdate behind passwdSyncUpdate), ptt.GetUser of its
// own user; plus one goroutine that registers new users (ptt.SetupNewUser) into free slots meanwhile.  Afterwards
// EVERY slot of .PASSWDS and of the SHM money array is judged: a slot with a writer must hold exactly what its only
// writer last wrote (Money = SHM = plain arithmetic), every bystander slot must be byte-identical to the start.
func doConcRec(ws []string) (string, string) {
	g64, ok1 := parseNat(ws[1], 2)
	n64, ok2 := parseNat(ws[2], 6)
	seed, ok3 := parseNat(ws[3], 19)
	G, N := int(g64), int(n64)
	if !(ok1 && ok2 && ok3) || G < 1 || 2*G > nSlot || N < 1 || N > 100000 {
		return "bad-op", "bad-op"
	}
	line := strings.Join(ws, " ")
	free := []int64{MAX / 2, MAX/2 + 2, MAX/2 + 4}
	slots := concSlots(G)
	for _, u := range slots {
		for _, fr := range free {
			if u == fr {
				panic("c20: owned slot in the free set")
			}
		}
	}
	setupNames(free)
	start := fill(seed, recSize*nSlot)
	var arr [nSlot]int32
	for s := 0; s < nSlot; s++ {
		arr[s] = int32(1000 * (s + 1))
		binary.LittleEndian.PutUint32(start[recSize*s+moneyOff:], uint32(arr[s]))
	}
	if err := os.WriteFile(ptttype.FN_PASSWD, start, 0o600); err != nil {
		panic(err)
	}
	_ = os.WriteFile(ptttype.FN_FRESH, []byte("fresh"), 0o644)
	cache.Shm.Shm.Money = arr

	img := make([][]byte, G)   // what the only writer of the slot last put there
	final := make([]int64, G)  // its balance by plain arithmetic
	firstBad := make([]pending, G+1)
	var wg sync.WaitGroup
	gate := make(chan struct{})
	for k := 0; k < G; k++ {
		wg.Add(1)
		go func(k int) {
			defer wg.Done()
			r := hx.NewRand(seed*1000 + uint64(k) + 7)
			u := slots[k]
			base := recSize * int(u-1)
			my := append([]byte{}, start[base:base+recSize]...)
			cp := decodeRec(my)
			bal := int64(arr[u-1])
			bad := func(key, what string) {
				if firstBad[k].key == "" {
					firstBad[k] = pending{key, what}
				}
			}
			<-gate
			res := hx.CallSync(func() string {
				for i := 0; i < N; i++ {
					switch c := r.Intn(10); {
					case c < 2:
						v := int64(r.Intn(1000000))
						got, err := cache.SetUMoney(ptttype.UID(u), int32(v))
						bal = v
						binary.LittleEndian.PutUint32(my[moneyOff:], uint32(int32(bal)))
						if err != nil || int64(got) != bal {
							bad("mismatch:arith", fmt.Sprintf("call %d of the writer of slot %d: SetUMoney(%d) returned (%d, %v)", i, u, v, got, err))
						}
					case c < 5:
						d := int64(r.Intn(4001)) - 2000
						got, err := cache.DeUMoney(ptttype.UID(u), int32(d))
						if d < 0 && bal < -d {
							bal = 0
						} else {
							bal += d
						}
						binary.LittleEndian.PutUint32(my[moneyOff:], uint32(int32(bal)))
						if err != nil || int64(got) != bal {
							bad("mismatch:arith", fmt.Sprintf("call %d of the writer of slot %d: DeUMoney(%d) returned (%d, %v), plain arithmetic says %d", i, u, d, got, err, bal))
						}
					case c < 9:
						perm := ptttype.PERM(uint32(k)<<24 | uint32(i))
						cp.Money = int32(r.Intn(1000)) // whatever the caller's copy carries
						_, err := ptt.SetUserPerm(nil, ptttype.UID(u), cp, perm)
						want := *cp
						want.UserLevel = perm
						want.Money = int32(bal)
						my = encode(&want)
						if err != nil {
							bad("valid-slot-rejected", fmt.Sprintf("call %d of the writer of slot %d: SetUserPerm: %v", i, u, err))
						}
					default:
						rec, err := ptt.GetUser(slotName(u))
						if err != nil || rec == nil {
							bad("valid-slot-rejected", fmt.Sprintf("call %d of the writer of slot %d: GetUser: %v", i, u, err))
							break
						}
						if int64(rec.Money) != bal {
							bad("mismatch:arith", fmt.Sprintf("call %d of the writer of slot %d: GetUser carries Money=%d, plain arithmetic says %d", i, u, rec.Money, bal))
						} else if at := sameRecord(encode(rec), my); at >= 0 {
							bad("query-record", fmt.Sprintf("call %d of the only writer of slot %d: GetUser returned a record that differs at byte %d from what that writer last wrote (user id in the record: %q)", i, u, at, types.CstrToString(rec.UserID[:])))
						}
					}
				}
				return ""
			})
			if res == "PANIC" {
				bad("crash:valid-slot", fmt.Sprintf("the writer of slot %d panicked: %s", u, hx.LastPanic))
			}
			img[k], final[k] = my, bal
		}(k)
	}
	// the registrar
	regIDs := []string{"regA", "regB", "regC"}
	regMoney := []int64{11, 0, 123456}
	wg.Add(1)
	go func() {
		defer wg.Done()
		<-gate
		res := hx.CallSync(func() string {
			for j, id := range regIDs {
				for y := 0; y < 50; y++ {
					runtime.Gosched()
				}
				if err := ptt.SetupNewUser(newUserRec(fmt.Sprintf("%s%d", id, seed%1000), regMoney[j])); err != nil && firstBad[G].key == "" {
					firstBad[G] = pending{"valid-slot-rejected", fmt.Sprintf("SetupNewUser(%s) with %d free slots: %v", id, len(free)-j, err)}
				}
			}
			return ""
		})
		if res == "PANIC" && firstBad[G].key == "" {
			firstBad[G] = pending{"crash:valid-slot", "the registrar panicked: " + hx.LastPanic}
		}
	}()
	close(gate)
	wg.Wait()
	namesDirty = true

	// ---- expected image of EVERY slot -----------------------------------------------------------
	type exp struct {
		rec    []byte
		bal    int64
		writer string
	}
	expect := map[int64]exp{}
	for k, u := range slots {
		expect[u] = exp{img[k], final[k], fmt.Sprintf("goroutine %d (money ops + SetUserPerm)", k)}
	}
	for j, id := range regIDs {
		name := fmt.Sprintf("%s%d", id, seed%1000)
		got, _ := cache.SearchUserRaw(idOf(name), nil)
		u := int64(got)
		isFree := false
		for _, fr := range free {
			isFree = isFree || fr == u
		}
		if _, dup := expect[u]; !isFree || dup {
			if firstBad[G].key == "" {
				firstBad[G] = pending{"valid-slot-rejected", fmt.Sprintf("registered id %s was given slot %d, not one of the free slots %v", name, u, free)}
			}
			continue
		}
		expect[u] = exp{encode(newUserRec(name, regMoney[j])), regMoney[j], "the registration of " + name}
	}
	fails := map[string]bool{}
	fail := func(key, what string) {
		if !fails[key] {
			fails[key] = true
			pendingFails = append(pendingFails, pending{key, line + ": " + what})
		}
	}
	for _, b := range firstBad {
		if b.key != "" {
			fail(b.key, b.what)
		}
	}
	got, _ := readFile()
	now := shmNow()
	if len(got) != len(start) {
		fail("frame:concurrent", fmt.Sprintf(".PASSWDS is %d bytes long, expected %d (something was written past the last record)", len(got), len(start)))
	}
	if len(got) >= len(start) {
		for u := int64(1); u <= MAX; u++ {
			base := recSize * int(u-1)
			rec := got[base : base+recSize]
			owner := types.CstrToString(rec[idOff : idOff+ptttype.IDLEN+1])
			if e, ok := expect[u]; ok {
				d, _ := diskMoney(got, u)
				if int64(now[u-1]) != e.bal {
					fail("mismatch:arith", fmt.Sprintf("slot %d (only writer: %s): Shm.Money=%d, plain arithmetic says %d", u, e.writer, now[u-1], e.bal))
				}
				if d != int64(now[u-1]) {
					fail("mismatch:shm-disk", fmt.Sprintf("slot %d (only writer: %s): Shm.Money=%d but .PASSWDS money=%d (user id in the slot: %q)", u, e.writer, now[u-1], d, owner))
				}
				for k := 0; k < recSize; k++ {
					if (k < moneyOff || k >= moneyOff+4) && rec[k] != e.rec[k] {
						fail("frame:record", fmt.Sprintf("slot %d (only writer: %s): byte %d of the record is %#02x, its writer wrote %#02x (user id in the slot: %q)", u, e.writer, k, rec[k], e.rec[k], owner))
						break
					}
				}
			} else {
				for k := 0; k < recSize; k++ {
					if rec[k] != start[base+k] {
						fail("frame:concurrent", fmt.Sprintf("bystander slot %d (nobody wrote to it): byte %d of its record changed from %#02x to %#02x (user id now in the slot: %q)", u, k, start[base+k], rec[k], owner))
						break
					}
				}
				if now[u-1] != arr[u-1] {
					fail("frame:shm", fmt.Sprintf("bystander slot %d: Shm.Money changed from %d to %d", u, arr[u-1], now[u-1]))
				}
			}
		}
	}
	P = oracle{}
	stale = map[int64]*ptttype.UserecRaw{}
	return "done", fmt.Sprintf("concrec:%dx%d", G, N)
}

// doConcFld: `resetconcfld G N seed`: field writers racing with money writers on the SAME users.  N rounds; in every
// round, for each of G users at the same time: one goroutine credits/debits the user (after a short, varying delay),
// another changes the user's password (ptt.ChangePasswd) or e-mail (ptt.ChangeEmail).  After every round the Money of
// each of these users in .PASSWDS must be its SHM money and what plain arithmetic says; at the end every slot is
// judged (the password hash carries a random salt: those bytes are not compared; the e-mail must be the last one set).
func doConcFld(ws []string) (string, string) {
	g64, ok1 := parseNat(ws[1], 2)
	n64, ok2 := parseNat(ws[2], 6)
	seed, ok3 := parseNat(ws[3], 19)
	G, N := int(g64), int(n64)
	if !(ok1 && ok2 && ok3) || G < 1 || 2*G > nSlot || N < 1 || N > 100000 {
		return "bad-op", "bad-op"
	}
	line := strings.Join(ws, " ")
	if namesDirty || namesFree != "-" {
		setupNames(nil)
	}
	slots := concSlots(G)
	start := fill(seed, recSize*nSlot)
	var arr [nSlot]int32
	for s := 0; s < nSlot; s++ {
		arr[s] = int32(1000 * (s + 1))
		binary.LittleEndian.PutUint32(start[recSize*s+moneyOff:], uint32(arr[s]))
	}
	pw := func(k int) []byte { return []byte(fmt.Sprintf("pw%d", k%7)) }
	for _, u := range slots {
		h, err := cmbbs.GenPasswd(pw(0))
		if err != nil {
			panic(err)
		}
		copy(start[recSize*int(u-1)+pwOff:], h[:])
	}
	if err := os.WriteFile(ptttype.FN_PASSWD, start, 0o600); err != nil {
		panic(err)
	}
	cache.Shm.Shm.Money = arr
	pwGen = [nSlot]int{}
	fails := map[string]bool{}
	var mu sync.Mutex
	fail := func(key, what string) {
		mu.Lock()
		defer mu.Unlock()
		if !fails[key] {
			fails[key] = true
			pendingFails = append(pendingFails, pending{key, line + ": " + what})
		}
	}
	bal := make([]int64, G)
	lastEmail := make([]string, G)
	for k, u := range slots {
		bal[k] = int64(arr[u-1])
	}
	r := hx.NewRand(seed + 99)
	ip := &ptttype.IPv4_t{}
	for round := 0; round < N; round++ {
		var wg sync.WaitGroup
		gate := make(chan struct{})
		delay := round % 64
		for k, u := range slots {
			d := int64(r.Intn(151)) - 50
			if d < 0 && bal[k] < -d {
				bal[k] = 0
			} else {
				bal[k] += d
			}
			wg.Add(2)
			go func(k int, u, d int64) { // the money writer
				defer wg.Done()
				<-gate
				for y := 0; y < delay*40; y++ {
					runtime.Gosched()
				}
				res := hx.CallSync(func() string {
					if got, err := cache.DeUMoney(ptttype.UID(u), int32(d)); err != nil || int64(got) != bal[k] {
						fail("mismatch:arith", fmt.Sprintf("round %d: DeUMoney(%d, %d) returned (%d, %v), plain arithmetic says %d", round, u, d, got, err, bal[k]))
					}
					return ""
				})
				if res == "PANIC" {
					fail("crash:valid-slot", "DeUMoney panicked: "+hx.LastPanic)
				}
			}(k, u, d)
			go func(k int, u int64) { // the field writer
				defer wg.Done()
				<-gate
				res := hx.CallSync(func() string {
					if round%3 == 2 {
						em := &ptttype.Email_t{}
						lastEmail[k] = fmt.Sprintf("u%dr%d@example.org", u, round)
						copy(em[:], lastEmail[k])
						if err := ptt.ChangeEmail(slotName(u), em); err != nil {
							fail("valid-slot-rejected", fmt.Sprintf("round %d: ChangeEmail of slot %d: %v", round, u, err))
						}
						return ""
					}
					if err := ptt.ChangePasswd(slotName(u), pw(pwGen[k]), pw(pwGen[k]+1), ip); err != nil {
						fail("valid-slot-rejected", fmt.Sprintf("round %d: ChangePasswd of slot %d: %v", round, u, err))
					} else {
						pwGen[k]++
					}
					return ""
				})
				if res == "PANIC" {
					fail("crash:valid-slot", "the field writer panicked: "+hx.LastPanic)
				}
			}(k, u)
		}
		close(gate)
		wg.Wait()
		// after the round: every one of these users
		f, _ := readFile()
		now := shmNow()
		for k, u := range slots {
			d, _ := diskMoney(f, u)
			if int64(now[u-1]) != bal[k] {
				fail("mismatch:arith", fmt.Sprintf("round %d: slot %d: Shm.Money=%d, plain arithmetic says %d", round, u, now[u-1], bal[k]))
			}
			if d != int64(now[u-1]) {
				fail("mismatch:shm-disk", fmt.Sprintf("round %d: slot %d (a credit/debit and a password/e-mail change of this user ran at the same time): Shm.Money=%d but .PASSWDS money=%d", round, u, now[u-1], d))
			}
		}
		if len(fails) > 0 {
			break
		}
	}
	// ---- every slot at the end ----
	got, _ := readFile()
	now := shmNow()
	if len(got) != len(start) {
		fail("frame:concurrent", fmt.Sprintf(".PASSWDS is %d bytes long, expected %d", len(got), len(start)))
	} else {
		want := append([]byte{}, start...)
		for k, u := range slots {
			base := recSize * int(u-1)
			binary.LittleEndian.PutUint32(want[base+moneyOff:], uint32(int32(bal[k])))
			if lastEmail[k] != "" {
				em := make([]byte, emailSz)
				copy(em, lastEmail[k])
				copy(want[base+emailOff:], em)
			}
			copy(want[base+pwOff:base+pwOff+pwSz], got[base+pwOff:base+pwOff+pwSz]) // salted hash: not compared
		}
		for k := range want {
			if got[k] != want[k] && len(fails) == 0 {
				fail("frame:concurrent", fmt.Sprintf("byte %d of .PASSWDS (record %d, offset %d) is %#02x, expected %#02x", k, k/recSize+1, k%recSize, got[k], want[k]))
				break
			}
		}
	}
	for s := 0; s < nSlot; s++ {
		owned := false
		for _, u := range slots {
			owned = owned || int(u-1) == s
		}
		if !owned && now[s] != arr[s] {
			fail("frame:shm", fmt.Sprintf("bystander slot %d: Shm.Money changed from %d to %d", s+1, arr[s], now[s]))
		}
	}
	P = oracle{}
	stale = map[int64]*ptttype.UserecRaw{}
	return "done", fmt.Sprintf("concfld:%dx%d", G, N)
}

var pwGen [nSlot]int

func generateConcurrent() {
	run.Rule = "concurrent stress (property oracle only; the model answers `done`): resetconc G N seed = G goroutines x N SetUMoney/DeUMoney calls, each goroutine the only writer of its own slot (1, MAX_USERS, 2, MAX_USERS-1, ...), started together; afterwards every byte of .PASSWDS and every SHM entry is compared with the image plain arithmetic gives. `resetconcrec G N seed` = the same with whole-record writers: every goroutine mixes SetUMoney/DeUMoney, ptt.SetUserPerm with its own (stale-Money) copy and ptt.GetUser on its own slot while a registrar runs ptt.SetupNewUser into free slots; every slot of .PASSWDS is judged, bystanders included. `resetconcfld G N seed` = N rounds in which, for each of G users at once, a credit/debit (after a varying delay) races with ptt.ChangePasswd / ptt.ChangeEmail of the same user; Money on disk = SHM = arithmetic is checked after every round and every slot at the end. nontrivial = a resetconc* that ran"
	if run.Replay != "" {
		for _, l := range hx.ReplayOps(run.Replay) {
			do(l)
		}
		return
	}
	rounds, n := 6, 3000
	if run.Thorough() {
		rounds, n = 40, 6000
	}
	for k := 0; k < rounds; k++ {
		g := []int{8, 16, 4, 25}[k%4]
		do(fmt.Sprintf("resetconc %d %d %d", g, n, run.R.U64()%1000000007))
	}
	// whole-record writers of different users at the same time (+ money writers, readers, a registrar)
	for k := 0; k < rounds; k++ {
		g := []int{2, 8, 16, 4, 22, 3}[k%6]
		do(fmt.Sprintf("resetconcrec %d %d %d", g, n/2, run.R.U64()%1000000007))
	}
	// field writers (password / e-mail changes) racing with money writers on the same users
	for k := 0; k < rounds/2; k++ {
		g := []int{2, 4, 1}[k%3]
		do(fmt.Sprintf("resetconcfld %d %d %d", g, n/10, run.R.U64()%1000000007))
	}
	do("resetconcfld 0 10 1")
	do("resetconcrec 0 10 1")
	do("resetconcrec 4 10")
	do("resetconc 0 10 1")
	do("resetconc 26 10 1")
	do("resetconc 4 0 1")
	do("resetconc 4 10")
}

// canonLine: set by an op whose recorded line carries what was observed (newuser: the slot and the record)
var canonLine string

type pending struct{ key, what string }

var pendingFails []pending

func do(line string) {
	canonLine = ""
	pendingFails = nil
	out, label, res := exec(line)
	if canonLine != "" {
		line = canonLine
	}
	i := opCount
	for _, pf := range pendingFails {
		run.Fail(i, pf.key, pf.what)
	}
	if res != nil {
		br := P.judge(i, line, res.kind, res.u, res.m, res.panicked, res.ret, res.errc)
		label += ":" + br
		if res.panicked {
			label += ":PANIC"
		} else if res.errc != "ok" {
			label += ":" + res.errc
		}
	}
	if got := run.Op(line, out, label, res != nil || strings.HasPrefix(label, "conc") || strings.HasPrefix(label, "loaduhash") || strings.HasPrefix(label, "expire")); got != i {
		panic("c20: op index out of step")
	}
	opCount++
}

func main() {
	run = hx.Start("C20")
	defer run.Finish()
	var err error
	env, err = bbsenv.New(bbsenv.Options{})
	if err != nil {
		fmt.Fprintln(os.Stderr, "bbsenv:", err)
		os.Exit(2)
	}
	defer env.Close()
	defer func() { ptttype.USE_COOLDOWN = true }()
	setupNames(nil)
	run.Rule = "histories `reset; ops` on a generated .PASSWDS of MAX_USERS records (LCG filler, per-slot money) with the SHM money array set per slot. " +
		"single-op shapes enumerated smallest first: slots {1,2,MAX-1,MAX,0,-1,MAX+1,int32 limits} x start balances {0,1,1000,2^31-2,2^31-1,-1,-1000,-2^31} x {set,de} x amounts {0,+-1,+-b,+-(b+1),2^31-1-b,2^31-b (overflow),int32 limits}, each followed by get; " +
		"random histories of 3..40 ops with amounts chosen relative to the current balance (floor, exact, near-limit, rare overflow), unsynced and negative starts; " +
		"whole-record writes: `permupdate u staleMoney perm` = ptt.SetUserPerm with the record kept at the last `load u` (a zero record otherwise) whose Money is set to staleMoney first, after credits/debits/sets, on all slot classes; `syncquery`/`load` = ptt.GetUser; " +
		"registrations: `reset ... free=<slots>` leaves those slots without a user id (their SHM/disk money poked to 0, a leftover balance, or only one of the two), `newuser id startMoney` = ptt.SetupNewUser, the slot it got is observed in the SHM user hash and written into the op line together with the record; " +
		"loader: `config 0|1` sets ptttype.USE_COOLDOWN for the history, `loaduhash 0` = Shm.Reset()+cache.LoadUHash() (fresh start), `loaduhash 1` = cache.LoadUHash() on the live segment (on-the-fly), `pokerec u id money` = an external edit of a record (owner change / money only / vacated); fresh starts on tables with balances, reloads after owner changes, followed by credits, debits, whole-record writes and registrations, under both configuration values; " +
		"account expiry: `age u days perm` edits LastLogin/UserLevel of a record, `expire id m` = ptt.SetupNewUser with a stale .fresh (on a full table this runs tryCleanUser -> checkAndExpireAccount -> killUser); credited accounts that expire (unregistered, registered, last slot, balance 0), accounts inside the grace range, exempt accounts, slot 1, a table with a free slot (no clean-up), then reads, a credit and a restart; every slot is judged after the sweep; " +
		"renames: `setuserid u id` = cache.SetUserID on occupied slots (same owner with corrected case, another id, invalid slots) between credits, debits, reads and whole-record writes: no balance may move; " +
		"field writers: `chemail u text` = ptt.ChangeEmail between money operations (only the Email field of that record may change); " +
		"malformed stream: missing/short/long/torn .PASSWDS (recorded, not judged), ill-formed op lines. nontrivial = set/de/get that reached the real function; overflow and MoneyOf(invalid) cases are recorded and compared with the model, not judged"
	if run.Replay != "" {
		for _, l := range hx.ReplayOps(run.Replay) {
			do(l)
		}
		return
	}
	if *modeFlag == "concurrent" {
		generateConcurrent()
		return
	}
	generate()
}
