package main

import (
	"fmt"
	"strings"

	"github.com/Ptt-official-app/go-pttbbs/ptttype"
)

func clampOK(v int64) bool { return v >= minI && v <= maxI }

// resetLine builds a reset op. disk == nil: the file agrees with shm.
func resetLine(nrec int, tail int, seed uint64, shm []int64, disk []int64) string {
	if disk == nil {
		disk = shm
	}
	return fmt.Sprintf("reset %d %d %d %s %s", nrec, tail, seed%1000000007, csv(shm), csv(disk))
}

// baseBalances: distinct, non-negative, every slot different (so that a write to a wrong slot shows).
func baseBalances() []int64 {
	b := make([]int64, nSlot)
	for i := range b {
		b[i] = int64(100 + 7*i)
	}
	return b
}

func uniq(vs []int64) []int64 {
	seen := map[int64]bool{}
	var out []int64
	for _, v := range vs {
		if clampOK(v) && !seen[v] {
			seen[v] = true
			out = append(out, v)
		}
	}
	return out
}

// amountsFor: the amounts of the property's quantifier for a balance b.
func amountsFor(b int64) []int64 {
	return uniq([]int64{0, 1, -1, b, -b, b + 1, -(b + 1), b - 1, -(b - 1), maxI - b, maxI - b + 1, maxI - b - 1,
		minI - b, minI - b - 1, minI - b + 1, maxI, minI, minI + 1, maxI - 1})
}

func generate() {
	r := run.R
	do("layout")
	// ops before any reset are ill-formed
	do("set 1 5")
	do("get 1")

	slots := []int64{1, 2, MAX - 1, MAX, 0, -1, MAX + 1}
	starts := []int64{0, 1, 1000, maxI - 1, maxI}
	if run.Thorough() {
		slots = append(slots, MAX+2, -MAX, minI, maxI, minI+1, 2*MAX, 3, MAX/2)
		starts = append(starts, -1, -1000, minI, minI+1, 2, 65536, 1<<24 + 3)
	} else {
		slots = append(slots, minI, maxI)
		starts = append(starts, -1, minI)
	}
	seed := uint64(1)
	// ---- whole-record writes (ptt.SetUserPerm -> passwdSyncUpdate), smallest first --------------------
	// (a) no load: the caller's record is a zero record carrying a Money that is not the balance
	for _, u := range slots {
		for _, staleMoney := range []int64{0, 7, -1, maxI} {
			shm := baseBalances()
			seed++
			do(resetLine(nSlot, 0, seed, shm, nil))
			do(fmt.Sprintf("permupdate %d %d %d", u, staleMoney, 1+seed%7))
			do(fmt.Sprintf("get %d", u))
		}
	}
	// (b) load, change the balance, write the loaded record back
	for _, u := range slots {
		for _, mid := range []string{"de %d 5", "de %d -30", "de %d -100000", "set %d 0", "set %d 2147483647"} {
			shm := baseBalances()
			seed++
			do(resetLine(nSlot, 0, seed, shm, nil))
			do(fmt.Sprintf("load %d", u))
			do(fmt.Sprintf(mid, u))
			stale := int64(0)
			if inArr(u) {
				stale = shm[u-1]
			}
			do(fmt.Sprintf("permupdate %d %d %d", u, stale, 4294967295-seed%3))
			do(fmt.Sprintf("syncquery %d", u))
			do(fmt.Sprintf("get %d", u))
		}
	}
	// (c) a start where .PASSWDS disagrees with the cache: the whole-record write brings the slot into step
	for _, u := range []int64{1, MAX} {
		shm := baseBalances()
		disk := baseBalances()
		disk[u-1] = shm[u-1] + 9
		seed++
		do(resetLine(nSlot, 0, seed, shm, disk))
		do(fmt.Sprintf("syncquery %d", u))
		do(fmt.Sprintf("permupdate %d %d 3", u, disk[u-1]))
		do(fmt.Sprintf("get %d", u))
	}

	// ---- loading the user hash: where "SHM = .PASSWDS" comes from; under both values of ptttype.USE_COOLDOWN -------
	for _, cd := range []int{1, 0} {
		// (a) a fresh start on a table with balances: SHM starts from whatever, .PASSWDS holds the balances
		shm0 := make([]int64, nSlot)
		seed++
		do(resetLine(nSlot, 0, seed, shm0, baseBalances()))
		do(fmt.Sprintf("config %d", cd))
		do("loaduhash 0")
		do("get 1")
		do(fmt.Sprintf("get %d", MAX))
		do("de 1 10")
		do(fmt.Sprintf("permupdate %d 0 3", MAX))
		do("syncquery 2")
		do("de 2 -1000000")
		// (b) on-the-fly reload: slot 3 changed owner (refilled), slot 4 only its Money on disk (left alone),
		//     slot 5 vacated
		seed++
		do(resetLine(nSlot, 0, seed, baseBalances(), nil))
		do(fmt.Sprintf("config %d", cd))
		do("de 3 7")
		do("pokerec 3 newown3 5555")
		do("pokerec 4 = 777")
		do("pokerec 5 - 0")
		do("loaduhash 1")
		for _, u := range []int64{3, 4, 5, 6} {
			do(fmt.Sprintf("get %d", u))
		}
		do("syncquery 3")
		do("de 3 1")
		do("de 4 1")
		do("permupdate 3 0 9")
		do("loaduhash 1") // nothing changed since: a no-op
		do("get 3")
		// (c) the money paths under this configuration, then a fresh start again
		do("set 7 123")
		do("de 7 -200")
		do(fmt.Sprintf("set %d 2147483647", MAX))
		do("loaduhash 0")
		do("get 7")
		do(fmt.Sprintf("get %d", MAX))
		// (d) registration into a slot, reload, the new owner keeps the starting balance
		shm := baseBalances()
		shm[8] = 4242
		seed++
		do(resetLine(nSlot, 0, seed, shm, nil) + " free=9")
		do(fmt.Sprintf("config %d", cd))
		do(fmt.Sprintf("newuser ldnew%d 31", cd))
		do("loaduhash 1")
		do("get 9")
		do("loaduhash 0")
		do("get 9")
		do("syncquery 9")
	}

	// ---- renaming / re-assigning an occupied slot (cache.SetUserID): no balance may move
	for _, u := range slots {
		seed++
		do(resetLine(nSlot, 0, seed, baseBalances(), nil))
		do(fmt.Sprintf("de %d 400", u))
		if inArr(u) {
			do(fmt.Sprintf("setuserid %d VU%02d", u, u)) // case-corrected id of the same owner
		} else {
			do(fmt.Sprintf("setuserid %d ghost", u))
		}
		do(fmt.Sprintf("get %d", u))
		do(fmt.Sprintf("de %d -100", u))
		do(fmt.Sprintf("setuserid %d rn%d", u, seed)) // another id
		do(fmt.Sprintf("syncquery %d", u))
		do(fmt.Sprintf("permupdate %d 0 1", u))
		do(fmt.Sprintf("get %d", u))
	}

	// ---- field writers (ptt.ChangeEmail) between money operations: only the Email field of that record changes
	for _, u := range slots {
		seed++
		do(resetLine(nSlot, 0, seed, baseBalances(), nil))
		do(fmt.Sprintf("de %d 5", u))
		do(fmt.Sprintf("chemail %d a%d@x.org", u, seed))
		do(fmt.Sprintf("get %d", u))
		do(fmt.Sprintf("de %d -2", u))
		do(fmt.Sprintf("chemail %d b@y", u))
		do(fmt.Sprintf("syncquery %d", u))
	}

	// ---- account expiry: the clean-up sweep run from a registration on a full table with a stale .fresh
	//      (tryCleanUser -> checkAndExpireAccount -> killUser) is a whole-record writer; every slot is judged after it
	{
		xempt := int64(ptttype.PERM_XEMPT)
		loginok := int64(ptttype.PERM_LOGINOK)
		for round := 0; round < 2; round++ {
			seed++
			do(resetLine(nSlot, 0, seed, baseBalances(), nil))
			// every account keeps logging in / is exempt, except the ones aged below
			for u := int64(1); u <= MAX; u++ {
				if round == 0 {
					do(fmt.Sprintf("age %d 1 %d", u, loginok))
				} else {
					do(fmt.Sprintf("age %d 900 %d", u, xempt|loginok))
				}
			}
			do("de 7 500") // a credited account that then expires
			do("age 7 400 0")
			do(fmt.Sprintf("age %d 400 %d", MAX, loginok)) // registered, long gone, on the last slot
			do("age 9 100 0")                               // expired but inside the grace range: stays
			do(fmt.Sprintf("age 8 4000 %d", xempt))         // exempt: stays
			do("age 1 400 0")                               // slot 1 is never swept
			do("set 11 0")
			do("age 11 400 0") // an expired account with balance 0
			do(fmt.Sprintf("expire clean%d 5", round))
			for _, u := range []int64{7, MAX, 9, 8, 1, 11} {
				do(fmt.Sprintf("get %d", u))
			}
			do("de 7 1")
			do("loaduhash 0") // a restart: the removed account's slot must still show what SHM showed
			do("get 7")
			do(fmt.Sprintf("get %d", MAX))
			do(fmt.Sprintf("expire again%d 5", round)) // nothing left to remove
		}
		// a free slot exists: the registration is served without any clean-up
		seed++
		do(resetLine(nSlot, 0, seed, baseBalances(), nil) + " free=4")
		do("age 7 400 0")
		do("expire nocln 6")
		do("get 4")
		do("get 7")
	}

	// ---- registrations (ptt.SetupNewUser): the new account must start with ITS balance, whatever the slot held ------
	nid := 0
	newID := func() string { nid++; return fmt.Sprintf("nu%d", nid) }
	for _, fs := range [][]int64{{3}, {MAX}, {1}, {2, MAX - 1}} {
		for _, old := range []int64{0, 777, -4, maxI} { // what the freed slot still holds (killUser leaves the balance)
			for _, startMoney := range []int64{0, 5, 100000, -1, maxI, minI} {
				if !run.Thorough() && (startMoney == maxI || startMoney == minI) && old != 777 {
					continue
				}
				shm := baseBalances()
				for _, u := range fs {
					shm[u-1] = old
				}
				seed++
				do(resetLine(nSlot, 0, seed, shm, nil) + " free=" + csv(fs))
				for range fs {
					do(fmt.Sprintf("newuser %s %d", newID(), startMoney))
				}
				for _, u := range fs {
					do(fmt.Sprintf("get %d", u))
					do(fmt.Sprintf("syncquery %d", u))
					do(fmt.Sprintf("de %d -3", u))
				}
			}
		}
	}
	{ // the freed slot's old balance only in SHM (disk 0), and only on disk
		shm, disk := baseBalances(), baseBalances()
		shm[4], disk[4] = 900, 0
		do(resetLine(nSlot, 0, 7001, shm, disk) + " free=5")
		do("newuser onlyshm 12")
		do("get 5")
		shm[4], disk[4] = 0, 900
		do(resetLine(nSlot, 0, 7002, shm, disk) + " free=5")
		do("newuser onlydisk 12")
		do("get 5")
		// refused: the id exists; no free slot; then a free slot queried before anybody owns it
		do(resetLine(nSlot, 0, 7003, baseBalances(), nil) + " free=9")
		do("newuser vu01 5")
		do("syncquery 9")
		do("load 9")
		do("permupdate 9 1 2")
		do("newuser first 5")
		do("newuser first 6")
		do("newuser second 6")
		do(resetLine(nSlot, 0, 7004, baseBalances(), nil))
		do("newuser nobody 5")
		do("get 1")
	}

	// ---- single-op shapes, smallest first --------------------------------------------
	for _, b := range starts {
		for _, kind := range []string{"set", "de"} {
			for _, a := range amountsFor(b) {
				for _, u := range slots {
					shm := baseBalances()
					if inArr(u) {
						shm[u-1] = b
					}
					seed++
					do(resetLine(nSlot, 0, seed, shm, nil))
					do(fmt.Sprintf("%s %d %d", kind, u, a))
					do(fmt.Sprintf("get %d", u))
				}
			}
		}
	}

	// ---- random histories ---------------------------------------------------------------
	nHist := 250
	if run.Thorough() {
		nHist = 6000
	}
	pickSlot := func() int64 {
		switch r.Intn(10) {
		case 0, 1:
			return MAX
		case 2:
			return 1
		case 3:
			return MAX - 1
		case 4:
			return []int64{0, -1, MAX + 1, MAX + 2, minI, maxI, -MAX}[r.Intn(7)]
		default:
			return 1 + int64(r.Intn(nSlot))
		}
	}
	for h := 0; h < nHist; h++ {
		shm := make([]int64, nSlot)
		for i := range shm {
			switch r.Intn(8) {
			case 0:
				shm[i] = 0
			case 1:
				shm[i] = maxI - int64(r.Intn(3))
			default:
				shm[i] = int64(r.Intn(100000))
			}
		}
		var disk []int64
		mode := r.Intn(10)
		if mode == 0 { // negative starts (arithmetic still judged, non-negativity not)
			for k := 0; k < 5; k++ {
				shm[r.Intn(nSlot)] = -int64(r.Intn(5000)) - 1
			}
		}
		if mode == 1 { // the file disagrees with the cache at the start
			disk = append([]int64{}, shm...)
			for k := 0; k < 6; k++ {
				disk[r.Intn(nSlot)] = int64(r.Intn(1000))
			}
			disk[nSlot-1] = shm[nSlot-1] + 1
		}
		var freeSet []int64
		if r.Intn(6) == 0 {
			for len(freeSet) < 1+r.Intn(3) {
				u := 1 + int64(r.Intn(nSlot))
				dup := false
				for _, w := range freeSet {
					dup = dup || w == u
				}
				if !dup {
					freeSet = append(freeSet, u)
				}
			}
			do(resetLine(nSlot, 0, r.U64(), shm, disk) + " free=" + csv(freeSet))
		} else {
			do(resetLine(nSlot, 0, r.U64(), shm, disk))
		}
		n := 3 + r.Intn(38)
		if r.Intn(4) == 0 {
			do(fmt.Sprintf("config %d", r.Intn(2)))
		}
		loadsHere := r.Intn(5) == 0
		for k := 0; k < n; k++ {
			if loadsHere && r.Intn(6) == 0 {
				switch r.Intn(6) {
				case 4:
					do(fmt.Sprintf("age %d %d %d", 1+r.Intn(nSlot), []int{1, 100, 400, 4000}[r.Intn(4)], []int64{0, int64(ptttype.PERM_LOGINOK), int64(ptttype.PERM_XEMPT)}[r.Intn(3)]))
				case 5:
					do(fmt.Sprintf("expire rx%dx%d %d", h, k, r.Intn(1000)))
				case 0:
					do("loaduhash 0")
				case 1:
					do("loaduhash 1")
				case 2:
					u := 1 + int64(r.Intn(nSlot))
					do(fmt.Sprintf("pokerec %d pk%dx%d %d", u, h, k, r.Intn(100000)))
				default:
					u := 1 + int64(r.Intn(nSlot))
					do(fmt.Sprintf("pokerec %d = %d", u, r.Intn(100000)))
				}
				continue
			}
			u := pickSlot()
			cur := int64(0)
			if inArr(u) {
				cur = P.bal[u]
			}
			if freeSet != nil && r.Intn(5) == 0 {
				do(fmt.Sprintf("newuser rn%dx%d %d", h, k, []int64{0, 5, int64(r.Intn(100000)), -7, maxI}[r.Intn(5)]))
				continue
			}
			if r.Intn(25) == 0 {
				do(fmt.Sprintf("setuserid %d su%dx%d", u, h, k))
				continue
			}
			if r.Intn(25) == 0 {
				do(fmt.Sprintf("chemail %d r%d@h%d.tw", u, k, h))
				continue
			}
			switch r.Intn(13) {
			case 10:
				if r.Bool() {
					do(fmt.Sprintf("load %d", u))
				} else {
					do(fmt.Sprintf("syncquery %d", u))
				}
			case 11, 12:
				sm := cur
				switch r.Intn(4) {
				case 0:
					sm = int64(r.Intn(100000))
				case 1:
					sm = []int64{0, -1, maxI, minI}[r.Intn(4)]
				}
				do(fmt.Sprintf("permupdate %d %d %d", u, sm, r.U64()&0xffffffff))
			case 0, 1:
				do(fmt.Sprintf("get %d", u))
			case 2, 3:
				var v int64
				switch r.Intn(6) {
				case 0:
					v = 0
				case 1:
					v = maxI - int64(r.Intn(3))
				case 2:
					v = -int64(r.Intn(1000)) - 1
				default:
					v = int64(r.Intn(1 << 20))
				}
				do(fmt.Sprintf("set %d %d", u, v))
			default:
				var a int64
				switch r.Intn(14) {
				case 0:
					a = 0
				case 1:
					a = 1
				case 2:
					a = -1
				case 3:
					a = -cur
				case 4:
					a = -(cur + 1)
				case 5:
					a = -(cur - 1)
				case 6:
					a = maxI - cur
				case 7:
					a = maxI - cur + int64(r.Intn(2)) // overflow half of the time
				case 8:
					a = []int64{minI, minI + 1, maxI, -maxI}[r.Intn(4)]
				case 9:
					a = -int64(r.Intn(int(cur%100000+2))) // a debit that fits
				case 10:
					a = cur
				default:
					a = int64(r.Intn(200000)) - 100000
				}
				if !clampOK(a) {
					a = 0
				}
				do(fmt.Sprintf("de %d %d", u, a))
			}
		}
	}

	// ---- malformed stream ------------------------------------------------------------------
	// (a) .PASSWDS missing, short, torn inside and around the Money field, longer than MAX_USERS records
	base := baseBalances()
	probe := func() {
		for _, u := range []int64{1, 2, 3, MAX, 0, MAX + 1} {
			do(fmt.Sprintf("set %d 11", u))
			do(fmt.Sprintf("de %d -5", u))
			do(fmt.Sprintf("de %d -50", u))
			do(fmt.Sprintf("get %d", u))
			do(fmt.Sprintf("load %d", u))
			do(fmt.Sprintf("permupdate %d 77 5", u))
			do(fmt.Sprintf("syncquery %d", u))
			do(fmt.Sprintf("chemail %d m@f", u))
		}
		do("loaduhash 1")
		do("get 1")
		do("pokerec 1 = 5")
		do("config 0")
		do("loaduhash 0")
		do("get 1")
		do("get 2")
		do("syncquery 1")
		do("loaduhash 1")
		// slots beyond the records the loader found are still valid slots
		do(fmt.Sprintf("set %d 5", MAX))
		do(fmt.Sprintf("get %d", MAX))
		do(fmt.Sprintf("de %d 3", MAX))
		do(fmt.Sprintf("get %d", MAX))
		do("de 3 4")
		do("get 3")
	}
	do(fmt.Sprintf("reset nofile 0 0 %s -", csv(base)))
	probe()
	do(fmt.Sprintf("reset nofile 0 0 %s - free=4", csv(base)))
	do("newuser ghost 5")
	do("get 4")
	do(fmt.Sprintf("reset 2 0 9 %s 1,2 free=4,1", csv(base)))
	do("newuser shortf 5")
	do("newuser shortg 6")
	do("get 4")
	tails := []int{0, 1, moneyOff, moneyOff + 2, moneyOff + 4, recSize - 1}
	for _, nrec := range []int{0, 1, 2, nSlot - 1, nSlot + 3} {
		for _, tail := range tails {
			if nrec > nSlot && tail != 0 && !run.Thorough() {
				continue
			}
			d := make([]int64, nrec)
			for i := range d {
				d[i] = int64(100 + 7*i)
			}
			do(fmt.Sprintf("reset %d %d %d %s %s", nrec, tail, 77+nrec+tail, csv(base), csv(d)))
			probe()
		}
	}
	// (b) ill-formed lines (the state of the last reset is still there: a well-formed op must still work after them)
	do(resetLine(nSlot, 0, 5, base, nil))
	illFormed := []string{
		"set", "set 1", "set 1 2 3", "de 1", "get", "get 1 2", "frob 1 2", "SET 1 2",
		"set a 1", "set 1 b", "set 1 2147483648", "set 1 -2147483649", "de 2147483648 1", "get 99999999999",
		"set +1 1", "set 1 1_0", "set 0x1 1", "set 1 -", "set - 1", "de 1 --1", "set 1 1.0", "set ١ 1",
		"newuser", "newuser ab", "newuser 1a 5", "newuser a 5", "newuser abcdefghijklm 5", "newuser ab 2147483648",
		"newuser ab 5 1", "newuser ab 5 1 zz", "newuser ab 5 -1 00", "newuser ab_c 5",
		"reset 50 0 1 " + csv(base) + " " + csv(base) + " free=", "reset 50 0 1 " + csv(base) + " " + csv(base) + " free=0",
		"reset 50 0 1 " + csv(base) + " " + csv(base) + " free=3,3", "reset 50 0 1 " + csv(base) + " " + csv(base) + " fre=3",
		"resetconc 4 10", "resetconc x 10 1",
		"setuserid", "setuserid 1", "setuserid 1 1a", "setuserid x ab", "setuserid 1 ab cd",
		"chemail", "chemail 1", "chemail 1 a_b", "chemail x a@b", "chemail 1 a@b c", "resetconcfld 3 5",
		"age", "age 1 2", "age 0 1 0", "age 1 x 0", "age 1 1 4294967296", "expire", "expire 1a 5", "expire ab", "expire ab 5 1 0",
		"expire ab 5 1,2 0 zz", "expire ab 5 1 0 00",
		"config", "config 2", "config 1 1", "loaduhash", "loaduhash 2", "loaduhash 0 1", "pokerec 1 = ", "pokerec 0 = 5",
		"pokerec 51 = 5", "pokerec 1 1a 5", "pokerec 1 = x", "pokerec 1 ab 2147483648",
		"load", "load 1 2", "syncquery a", "syncquery", "permupdate 1 2", "permupdate 1 2 4294967296", "permupdate 1 2 -1",
		"permupdate 1 x 1", "permupdate 1 2 3 4", "permupdate 1 2 12345678901",
		"layout now", "reset", "reset 50 0 1 1,2,3 1,2,3", "reset 50 0 x " + csv(base) + " " + csv(base),
		"reset 49 0 1 " + csv(base) + " " + csv(base), "reset 50 512 1 " + csv(base) + " " + csv(base),
		"reset nofile 0 0 " + csv(base) + " 1", "reset 101 0 1 " + csv(base) + " -",
		"reset 50 0 1 " + csv(base) + " " + csv(base)[1:] + ",", "reset -1 0 1 " + csv(base) + " -",
	}
	// first the lines that do not look like a reset: the state of the last reset must survive them
	for _, l := range illFormed {
		if !strings.HasPrefix(l, "reset") {
			do(l)
		}
	}
	do("set 2 41")
	do("get 2")
	// then the ill-formed resets, followed by a proper one (a replay starts at the nearest line beginning with `reset`)
	for _, l := range illFormed {
		if strings.HasPrefix(l, "reset") {
			do(l)
		}
	}
	do("set 2 43")
	do(resetLine(nSlot, 0, 6, base, nil))
	do("set 1 42")
	do("load 1")
	do("de 50 -3")
	do("permupdate 1 0 9")
	do("get 1")
}
