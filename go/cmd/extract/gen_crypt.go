package main

// Gen/CryptTables.lean (C02): every table of crypt/const.go, regenerated from the source:
// SPtrans [8][64]uint32, skb [8][64]uint32, shifts2 [16]bool (as 0/1), con_salt [128]uint8,
// cov_2char [64]uint8, plus the constants ITERATIONS and PASSLEN (crypt and ptttype).
// The shapes are checked here (a changed array length is a translator failure, not a silent re-shape).

import (
	"go/ast"
	"go/constant"
	"go/types"

	"golang.org/x/tools/go/packages"
)

// cryptBools flattens a one-dimensional array literal of boolean constants into "0"/"1".
func cryptBools(p *packages.Package, e ast.Expr) []string {
	cl, ok := ast.Unparen(e).(*ast.CompositeLit)
	if !ok {
		fatal("%s: bool table is not a composite literal at %v", p.PkgPath, p.Fset.Position(e.Pos()))
	}
	n := len(cl.Elts)
	if t := p.TypesInfo.TypeOf(cl); t != nil {
		if at, ok := t.Underlying().(*types.Array); ok {
			n = int(at.Len())
		}
	}
	out := make([]string, n)
	for i := range out {
		out[i] = "0"
	}
	pos := 0
	for _, el := range cl.Elts {
		val := el
		if kv, ok := el.(*ast.KeyValueExpr); ok {
			ktv := p.TypesInfo.Types[kv.Key]
			if ktv.Value == nil {
				fatal("non-constant key at %v", p.Fset.Position(kv.Pos()))
			}
			k, _ := constant.Int64Val(constant.ToInt(ktv.Value))
			pos = int(k)
			val = kv.Value
		}
		tv, ok := p.TypesInfo.Types[val]
		if !ok || tv.Value == nil || tv.Value.Kind() != constant.Bool {
			fatal("%s: non-constant bool element at %v", p.PkgPath, p.Fset.Position(val.Pos()))
		}
		if pos >= n {
			fatal("%s: bool element beyond the array at %v", p.PkgPath, p.Fset.Position(val.Pos()))
		}
		if constant.BoolVal(tv.Value) {
			out[pos] = "1"
		} else {
			out[pos] = "0"
		}
		pos++
	}
	return out
}

func cryptShape(name string, got []int, want ...int) {
	ok := len(got) == len(want)
	for i := 0; ok && i < len(want); i++ {
		ok = got[i] == want[i]
	}
	if !ok {
		fatal("crypt.%s: shape %v, expected %v", name, got, want)
	}
}

func init() {
	register("CryptTables", func(l *loader, repo, out string) {
		p := l.load("crypt")
		lf := newLean("CryptTables")
		sp, d := litInts(p, varInit(p, "SPtrans"))
		cryptShape("SPtrans", d, 8, 64)
		lf.natTable("SPtrans", sp, 8, 64)
		sk, d := litInts(p, varInit(p, "skb"))
		cryptShape("skb", d, 8, 64)
		lf.natTable("skb", sk, 8, 64)
		sh := cryptBools(p, varInit(p, "shifts2"))
		cryptShape("shifts2", []int{len(sh)}, 16)
		lf.natList("shifts2", sh)
		cs, d := litInts(p, varInit(p, "con_salt"))
		cryptShape("con_salt", d, 128)
		lf.natList("con_salt", cs)
		cv, d := litInts(p, varInit(p, "cov_2char"))
		cryptShape("cov_2char", d, 64)
		lf.natList("cov_2char", cv)
		lf.nat("ITERATIONS", constInt(p, "ITERATIONS"))
		lf.nat("PASSLEN", constInt(p, "PASSLEN"))
		lf.nat("ptttypePASSLEN", constInt(l.load("ptttype"), "PASSLEN"))
		lf.write(out)
	})
}
