package main

import (
	"go/ast"
	"go/types"
	"strings"
)

// Gen/Reg.lean: the order of the index / lock / write calls inside ptt.SetupNewUser (C15).
// Whether the "id already exists" lookup is repeated under the passwd lock is a fact of the
// source; the theorems take it from here.
func init() {
	register("Reg", func(l *loader, repo, out string) {
		p := l.load("ptt")
		var fn *ast.FuncDecl
		for _, f := range p.Syntax {
			for _, d := range f.Decls {
				if fd, ok := d.(*ast.FuncDecl); ok && fd.Recv == nil && fd.Name.Name == "SetupNewUser" {
					fn = fd
				}
			}
		}
		if fn == nil {
			fatal("ptt.SetupNewUser not found")
		}
		var calls []string
		ast.Inspect(fn.Body, func(n ast.Node) bool {
			call, ok := n.(*ast.CallExpr)
			if !ok {
				return true
			}
			name := ""
			switch f := call.Fun.(type) {
			case *ast.SelectorExpr:
				name = f.Sel.Name
			case *ast.Ident:
				name = f.Name
			}
			switch name {
			case "DoSearchUserRaw", "SearchUserRaw":
				arg := types.ExprString(call.Args[0])
				if strings.Contains(arg, "EMPTY_USER_ID") {
					calls = append(calls, "searchEmpty")
				} else {
					calls = append(calls, "searchUser")
				}
			case "PasswdLock":
				calls = append(calls, "lock")
			case "PasswdUnlock":
				calls = append(calls, "unlock")
			case "SetUserID":
				calls = append(calls, "setUserID")
			case "SetUMoney":
				calls = append(calls, "setMoney")
			case "passwdSyncUpdate", "PasswdUpdate":
				calls = append(calls, "writeRecord")
			case "tryCleanUser":
				calls = append(calls, "tryClean")
			}
			return true
		})
		lf := newLean("Reg")
		lf.raw("/-- calls of ptt.SetupNewUser in source order (a deferred unlock appears where it is registered). -/\n")
		lf.raw("def setupNewUserCalls : List String := [")
		for i, c := range calls {
			if i > 0 {
				lf.raw(", ")
			}
			lf.raw("\"" + c + "\"")
		}
		lf.raw("]\n")
		lf.write(out)
	})
}
