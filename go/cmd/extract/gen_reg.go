package main

import (
	"go/ast"
	"go/types"
	"strings"
)

// Gen/Reg.lean: the order of the index / lock / write calls inside ptt.SetupNewUser (C15).
// Whether the "id already exists" lookup is repeated under the passwd lock is a fact of the
// source; the theorems take it from here.
func init() {
	register("Reg", func(l *loader, repo, out string) {
		p := l.load("ptt")
		var fn *ast.FuncDecl
		for _, f := range p.Syntax {
			for _, d := range f.Decls {
				if fd, ok := d.(*ast.FuncDecl); ok && fd.Recv == nil && fd.Name.Name == "SetupNewUser" {
					fn = fd
				}
			}
		}
		if fn == nil {
			fatal("ptt.SetupNewUser not found")
		}
		var calls []string
		ast.Inspect(fn.Body, func(n ast.Node) bool {
			call, ok := n.(*ast.CallExpr)
			if !ok {
				return true
			}
			name := ""
			switch f := call.Fun.(type) {
			case *ast.SelectorExpr:
				name = f.Sel.Name
			case *ast.Ident:
				name = f.Name
			}
			switch name {
			case "DoSearchUserRaw", "SearchUserRaw":
				arg := types.ExprString(call.Args[0])
				if strings.Contains(arg, "EMPTY_USER_ID") {
					calls = append(calls, "searchEmpty")
				} else {
					calls = append(calls, "searchUser")
				}
			case "PasswdLock":
				calls = append(calls, "lock")
			case "PasswdUnlock":
				calls = append(calls, "unlock")
			case "SetUserID":
				calls = append(calls, "setUserID")
			case "SetUMoney":
				calls = append(calls, "setMoney")
			case "passwdSyncUpdate", "PasswdUpdate":
				calls = append(calls, "writeRecord")
			case "tryCleanUser":
				calls = append(calls, "tryClean")
			}
			return true
		})
		// the clean-up SetupNewUser runs BEFORE it takes the passwd lock: tryCleanUser and everything it
		// calls inside package ptt (checkAndExpireAccount, killUser, ...), in source order, depth first.
		// Which of these calls write the id index (SetUserID, the uhash chain functions) or a .PASSWDS record?
		decls := map[string]*ast.FuncDecl{}
		for _, f := range p.Syntax {
			for _, d := range f.Decls {
				if fd, ok := d.(*ast.FuncDecl); ok && fd.Recv == nil && fd.Body != nil {
					decls[fd.Name.Name] = fd
				}
			}
		}
		if decls["tryCleanUser"] == nil {
			fatal("ptt.tryCleanUser not found")
		}
		var clean []string
		seen := map[string]bool{}
		var walk func(name string)
		walk = func(name string) {
			if seen[name] {
				return
			}
			seen[name] = true
			ast.Inspect(decls[name].Body, func(n ast.Node) bool {
				call, ok := n.(*ast.CallExpr)
				if !ok {
					return true
				}
				callee, local := "", false
				switch f := call.Fun.(type) {
				case *ast.SelectorExpr:
					callee = f.Sel.Name
				case *ast.Ident:
					callee = f.Name
					local = decls[callee] != nil
				}
				switch callee {
				case "SetUserID", "AddToUHash", "RemoveFromUHash", "LoadUHash":
					clean = append(clean, "setUserID")
				case "passwdSyncUpdate", "PasswdUpdate":
					clean = append(clean, "writeRecord")
				case "touchFresh":
					clean = append(clean, "touchFresh")
				case "killUser":
					clean = append(clean, "killUser")
				case "PasswdLock":
					clean = append(clean, "lock")
				}
				if local && callee != "passwdSyncUpdate" {
					walk(callee)
				}
				return true
			})
		}
		walk("tryCleanUser")
		// the record ptt.NewRegister hands to SetupNewUser: a value of its own (composite literal, new(T), the
		// address of a local variable) or something shared between requests (a package-level variable)?
		reqRec := "unknown"
		if nr := decls["NewRegister"]; nr != nil {
			var argName string
			ast.Inspect(nr.Body, func(n ast.Node) bool {
				if call, ok := n.(*ast.CallExpr); ok {
					if id, ok := call.Fun.(*ast.Ident); ok && id.Name == "SetupNewUser" && len(call.Args) == 1 {
						if a, ok := call.Args[0].(*ast.Ident); ok {
							argName = a.Name
						} else {
							argName = "?"
							reqRec = classifyRecordExpr(p.TypesInfo, call.Args[0])
						}
					}
				}
				return true
			})
			if argName != "" && argName != "?" {
				reqRec = "unassigned"
				ast.Inspect(nr.Body, func(n ast.Node) bool {
					as, ok := n.(*ast.AssignStmt)
					if !ok {
						return true
					}
					for i, lhs := range as.Lhs {
						if id, ok := lhs.(*ast.Ident); ok && id.Name == argName && i < len(as.Rhs) && len(as.Lhs) == len(as.Rhs) {
							v := classifyRecordExpr(p.TypesInfo, as.Rhs[i])
							if reqRec == "unassigned" || v != "fresh" {
								reqRec = v // any assignment that is not fresh decides
							}
						}
					}
					return true
				})
			}
		} else {
			fatal("ptt.NewRegister not found")
		}
		lf := newLean("Reg")
		lf.raw("/-- what ptt.NewRegister passes to SetupNewUser: \"fresh\" = a record built for this request (composite literal, new, address of a local). -/\n")
		lf.raw("def requestRecord : String := \"" + reqRec + "\"\n")
		lf.raw("/-- index / record writes reachable from ptt.tryCleanUser (which SetupNewUser calls before PasswdLock), depth first in source order. -/\n")
		lf.raw("def cleanUserCalls : List String := [")
		for i, c := range clean {
			if i > 0 {
				lf.raw(", ")
			}
			lf.raw("\"" + c + "\"")
		}
		lf.raw("]\n")
		lf.raw("/-- calls of ptt.SetupNewUser in source order (a deferred unlock appears where it is registered). -/\n")
		lf.raw("def setupNewUserCalls : List String := [")
		for i, c := range calls {
			if i > 0 {
				lf.raw(", ")
			}
			lf.raw("\"" + c + "\"")
		}
		lf.raw("]\n")
		lf.write(out)
	})
}

// classifyRecordExpr: "fresh" for &T{...}, new(T), &local; "shared:<name>" for a package-level variable
// (or its address); otherwise "other:<expr>".
func classifyRecordExpr(info *types.Info, e ast.Expr) string {
	pkgLevel := func(id *ast.Ident) bool {
		obj := info.Uses[id]
		if obj == nil {
			obj = info.Defs[id]
		}
		return obj != nil && obj.Pkg() != nil && obj.Parent() == obj.Pkg().Scope()
	}
	switch x := e.(type) {
	case *ast.UnaryExpr:
		if x.Op.String() == "&" {
			switch y := x.X.(type) {
			case *ast.CompositeLit:
				return "fresh"
			case *ast.Ident:
				if pkgLevel(y) {
					return "shared:" + y.Name
				}
				return "fresh"
			}
		}
	case *ast.CallExpr:
		if id, ok := x.Fun.(*ast.Ident); ok && id.Name == "new" {
			return "fresh"
		}
	case *ast.Ident:
		if pkgLevel(x) {
			return "shared:" + x.Name
		}
	}
	return "other:" + strings.ReplaceAll(types.ExprString(e), "\"", "'")
}
