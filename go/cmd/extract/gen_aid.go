package main

// Gen/Aid.lean: the AID alphabet and decode table (ptttype/types.go), C13.
func init() {
	register("Aid", func(l *loader, repo, out string) {
		p := l.load("ptttype")
		lf := newLean("Aid")
		lf.natList("encodeAidc", bytesOf(constString(p, "encodeAidc")))
		tbl, dims := litInts(p, varInit(p, "decodeAidcTable"))
		if len(dims) != 1 {
			fatal("decodeAidcTable: unexpected shape %v", dims)
		}
		lf.natList("decodeAidcTable", tbl)
		lf.nat("FNLEN", constInt(p, "FNLEN"))
		lf.write(out)
	})
}
