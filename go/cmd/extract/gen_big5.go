package main

import (
	"fmt"
	"go/ast"
	"go/parser"
	"go/token"
	"io/fs"
	"sort"
	"go/constant"
	"go/types"
	"os"
	"path/filepath"
	"regexp"
	"strings"
)

// Gen/Big5.lean (C17):
//   - the default table-file names of types/00-config.go (the Lean driver reads the files; the tables are far too
//     large for a Lean literal and are parsed at run time by the modelled parser);
//   - types/config.go config(): for every `X = setStringConfig("KEY", DEFAULT)` (also behind a conversion, also
//     setInt/setBool…) the tuple (variable, setter, key, viper key, default expression) in source order — which ini
//     key feeds which table path is part of the mechanism, Props/C17 pins it by a kernel-checked theorem and the
//     driver resolves the configured paths from exactly this list;
//   - the [go-pttbbs:types] section of docs/config/01-config.docker.ini (the shipped deployment configuration).
func init() {
	register("Big5", func(l *loader, repo, out string) {
		p := l.load("types")
		lf := newLean("Big5")
		for _, v := range []struct{ lean, goName string }{{"b2uPath", "BIG5_TO_UTF8"}, {"u2bPath", "UTF8_TO_BIG5"}} {
			e := varInit(p, v.goName)
			tv, ok := p.TypesInfo.Types[e]
			if !ok || tv.Value == nil || tv.Value.Kind() != constant.String {
				fatal("types.%s: initialiser is not a string constant", v.goName)
			}
			lf.raw(fmt.Sprintf("def %s : String := %s\n", v.lean, big5LeanStr(constant.StringVal(tv.Value))))
		}
		prefix := constString(p, "configPrefix")
		lf.raw(fmt.Sprintf("def configPrefix : String := %s\n\n", big5LeanStr(prefix)))

		// ---- config() -------------------------------------------------------------------------------------
		lf.raw("/-- one `X = setTConfig(\"KEY\", DEFAULT)` of types/config.go config(); `viperKey` is what\nconfigutil.SetTConfig looks up: prefix + \".\" + lower(KEY). -/\n")
		lf.raw("structure CfgRead where\n  var : String\n  setter : String\n  key : String\n  viperKey : String\n  dflt : String\n  deriving DecidableEq, Repr\n\n")
		var fn *ast.FuncDecl
		for _, f := range p.Syntax {
			for _, d := range f.Decls {
				if fd, ok := d.(*ast.FuncDecl); ok && fd.Recv == nil && fd.Name.Name == "config" {
					fn = fd
				}
			}
		}
		if fn == nil || fn.Body == nil {
			fatal("types: func config() not found")
		}
		setterRe := regexp.MustCompile(`^set[A-Za-z]+Config$`)
		var rows []string
		for _, st := range fn.Body.List {
			as, ok := st.(*ast.AssignStmt)
			if !ok || len(as.Lhs) != 1 || len(as.Rhs) != 1 || as.Tok.String() != "=" {
				fatal("types.config(): unsupported statement at %v", p.Fset.Position(st.Pos()))
			}
			lhs, ok := as.Lhs[0].(*ast.Ident)
			if !ok {
				fatal("types.config(): left-hand side is not a variable at %v", p.Fset.Position(st.Pos()))
			}
			call, ok := ast.Unparen(as.Rhs[0]).(*ast.CallExpr)
			if !ok {
				fatal("types.config(): right-hand side is not a call at %v", p.Fset.Position(st.Pos()))
			}
			// unwrap a conversion T(setXConfig(...))
			if tv, isT := p.TypesInfo.Types[call.Fun]; isT && tv.IsType() && len(call.Args) == 1 {
				inner, ok := ast.Unparen(call.Args[0]).(*ast.CallExpr)
				if !ok {
					fatal("types.config(): conversion of a non-call at %v", p.Fset.Position(st.Pos()))
				}
				call = inner
			}
			fid, ok := call.Fun.(*ast.Ident)
			if !ok || !setterRe.MatchString(fid.Name) || len(call.Args) != 2 {
				fatal("types.config(): not a setTConfig(key, default) call at %v", p.Fset.Position(st.Pos()))
			}
			ktv := p.TypesInfo.Types[call.Args[0]]
			if ktv.Value == nil || ktv.Value.Kind() != constant.String {
				fatal("types.config(): key is not a string constant at %v", p.Fset.Position(st.Pos()))
			}
			key := constant.StringVal(ktv.Value)
			dflt := types.ExprString(call.Args[1])
			rows = append(rows, fmt.Sprintf("  ⟨%s, %s, %s, %s, %s⟩", big5LeanStr(lhs.Name), big5LeanStr(fid.Name), big5LeanStr(key),
				big5LeanStr(prefix+"."+strings.ToLower(key)), big5LeanStr(dflt)))
		}
		lf.raw("def configReads : List CfgRead := [\n" + strings.Join(rows, ",\n") + "]\n\n")

		// ---- the shipped docker ini ----------------------------------------------------------------------------
		iniPath := filepath.Join(repo, "docs", "config", "01-config.docker.ini")
		b, err := os.ReadFile(iniPath)
		if err != nil {
			fatal("%v", err)
		}
		var kv []string
		for _, e := range big5IniSection(string(b), prefix) {
			kv = append(kv, fmt.Sprintf("  (%s, %s)", big5LeanStr(strings.ToLower(e[0])), big5LeanStr(e[1])))
		}
		if len(kv) == 0 {
			fatal("%s: no [%s] section", iniPath, prefix)
		}
		lf.raw("/-- [" + prefix + "] of docs/config/01-config.docker.ini: (lower-case key, value). -/\n")
		lf.raw("def dockerIni : List (String × String) := [\n" + strings.Join(kv, ",\n") + "]\n\n")

		// ---- the start-up order: the X.InitConfig() calls of initgin.InitAllConfig, in source order -----------------
		order := big5InitOrder(filepath.Join(repo, "initgin", "init_all_config.go"), "InitAllConfig")
		if len(order) == 0 {
			fatal("initgin.InitAllConfig: no X.InitConfig() calls found")
		}
		var os_ []string
		for _, o := range order {
			os_ = append(os_, big5LeanStr(o))
		}
		lf.raw("/-- packages whose InitConfig() initgin.InitAllConfig calls, in call order. -/\n")
		lf.raw("def initOrder : List String := [" + strings.Join(os_, ", ") + "]\n\n")

		// ---- every call of a converter outside package types: (directory, function, converter) -----------------------
		var cs []string
		for _, c := range big5ConversionCallers(repo) {
			cs = append(cs, fmt.Sprintf("  (%s, %s, %s)", big5LeanStr(c[0]), big5LeanStr(c[1]), big5LeanStr(c[2])))
		}
		lf.raw("/-- non-test call sites of types.Utf8ToBig5 / types.Big5ToUtf8 outside package types. -/\n")
		lf.raw("def conversionCallers : List (String × String × String) := [\n" + strings.Join(cs, ",\n") + "]\n\n")

		// ---- the first line of each table file (the loader drops line 1 unconditionally) -----------------------------
		for _, v := range []struct{ lean, goName string }{{"b2uFirstLine", "BIG5_TO_UTF8"}, {"u2bFirstLine", "UTF8_TO_BIG5"}} {
			tv := p.TypesInfo.Types[varInit(p, v.goName)]
			b, err := os.ReadFile(filepath.Join(repo, constant.StringVal(tv.Value)))
			if err != nil {
				fatal("%v", err)
			}
			first, _, _ := strings.Cut(string(b), "\n")
			if len(first) > 200 {
				fatal("%s: first line longer than 200 bytes", v.goName)
			}
			lf.natList(v.lean, bytesOf(first))
		}

		// ---- rows by content against rows by the loader's rule (counts over the whole files) -------------------------
		// by content: the first two blank-separated fields are 0xHHHH 0xHHHH, whatever follows (e.g. an inline comment);
		// by the loader: strings.Split(line, " ") has exactly two pieces and both are 0xHHHH after TrimSpace.
		hexF := regexp.MustCompile(`^0x[0-9A-Fa-f]{4}$`)
		for _, v := range []struct{ lean, goName string }{{"b2u", "BIG5_TO_UTF8"}, {"u2b", "UTF8_TO_BIG5"}} {
			tv := p.TypesInfo.Types[varInit(p, v.goName)]
			b, _ := os.ReadFile(filepath.Join(repo, constant.StringVal(tv.Value)))
			byContent, byLoader := 0, 0
			keys := map[string]bool{} // the key column: Big5 code in the b2u file, code point in the u2b file
			for _, line := range strings.Split(string(b), "\n") {
				if fs := strings.Fields(line); len(fs) >= 2 && hexF.MatchString(fs[0]) && hexF.MatchString(fs[1]) {
					byContent++
					if v.lean == "b2u" {
						keys[strings.ToUpper(fs[0])] = true
					} else {
						keys[strings.ToUpper(fs[1])] = true
					}
				}
				if ps := strings.Split(line, " "); len(ps) == 2 && hexF.MatchString(strings.TrimSpace(ps[0])) && hexF.MatchString(strings.TrimSpace(ps[1])) {
					byLoader++
				}
			}
			lf.nat(v.lean+"RowsByContent", byContent)
			lf.nat(v.lean+"RowsByLoaderRule", byLoader)
			lf.nat(v.lean+"DistinctKeys", len(keys))
		}
		lf.write(out)
	})
}

// big5IniSection returns the key/value pairs of one section (inline ` #`/` ;` comments stripped).
func big5IniSection(text, section string) (out [][2]string) {
	in := false
	for _, line := range strings.Split(text, "\n") {
		line = strings.TrimSpace(line)
		if strings.HasPrefix(line, "[") && strings.HasSuffix(line, "]") {
			in = line[1:len(line)-1] == section
			continue
		}
		if !in || line == "" || line[0] == '#' || line[0] == ';' {
			continue
		}
		k, v, ok := strings.Cut(line, "=")
		if !ok {
			continue
		}
		v = strings.TrimSpace(v)
		for _, c := range []string{" #", " ;", "\t#", "\t;"} {
			if i := strings.Index(v, c); i >= 0 {
				v = strings.TrimSpace(v[:i])
			}
		}
		out = append(out, [2]string{strings.TrimSpace(k), v})
	}
	return out
}

// big5LeanStr renders a Go string as a Lean string literal (printable ASCII only is expected here).
func big5LeanStr(s string) string {
	var b strings.Builder
	b.WriteByte('"')
	for _, r := range s {
		switch {
		case r == '"' || r == '\\':
			b.WriteByte('\\')
			b.WriteRune(r)
		case r < 0x20 || r == 0x7f:
			fmt.Fprintf(&b, "\\x%02x", r)
		default:
			b.WriteRune(r)
		}
	}
	b.WriteByte('"')
	return b.String()
}

// big5InitOrder: the package names X of the calls X.InitConfig() in function fn of the file, in source order.
func big5InitOrder(file, fn string) (order []string) {
	fset := token.NewFileSet()
	f, err := parser.ParseFile(fset, file, nil, 0)
	if err != nil {
		fatal("%v", err)
	}
	imported := map[string]bool{}
	for _, im := range f.Imports {
		path := strings.Trim(im.Path.Value, "\"")
		name := path[strings.LastIndex(path, "/")+1:]
		if im.Name != nil {
			name = im.Name.Name
		}
		imported[name] = true
	}
	for _, d := range f.Decls {
		fd, ok := d.(*ast.FuncDecl)
		if !ok || fd.Name.Name != fn || fd.Body == nil {
			continue
		}
		ast.Inspect(fd.Body, func(n ast.Node) bool {
			if call, ok := n.(*ast.CallExpr); ok {
				if sel, ok := call.Fun.(*ast.SelectorExpr); ok && sel.Sel.Name == "InitConfig" {
					if id, ok := sel.X.(*ast.Ident); ok && imported[id.Name] {
						order = append(order, id.Name)
					}
				}
			}
			return true
		})
	}
	return order
}

// big5ConversionCallers: (directory, enclosing function, converter) of every non-test call types.Utf8ToBig5 /
// types.Big5ToUtf8 outside package types (syntactic: the selector on an identifier named `types`).
func big5ConversionCallers(repo string) (out [][3]string) {
	_ = filepath.WalkDir(repo, func(path string, d fs.DirEntry, err error) error {
		if err != nil {
			return nil
		}
		if d.IsDir() {
			if n := d.Name(); n == ".git" || n == "vendor" || n == "node_modules" || (strings.HasPrefix(n, ".") && path != repo) {
				return filepath.SkipDir
			}
			return nil
		}
		if !strings.HasSuffix(path, ".go") || strings.HasSuffix(path, "_test.go") {
			return nil
		}
		rel, _ := filepath.Rel(repo, filepath.Dir(path))
		if rel == "types" {
			return nil
		}
		fset := token.NewFileSet()
		f, err := parser.ParseFile(fset, path, nil, 0)
		if err != nil {
			return nil
		}
		for _, decl := range f.Decls {
			fd, ok := decl.(*ast.FuncDecl)
			fname := "(package level)"
			var node ast.Node = decl
			if ok {
				fname = fd.Name.Name
			}
			ast.Inspect(node, func(n ast.Node) bool {
				if sel, ok := n.(*ast.SelectorExpr); ok {
					if id, ok := sel.X.(*ast.Ident); ok && id.Name == "types" && (sel.Sel.Name == "Utf8ToBig5" || sel.Sel.Name == "Big5ToUtf8") {
						out = append(out, [3]string{rel, fname, sel.Sel.Name})
					}
				}
				return true
			})
		}
		return nil
	})
	sort.Slice(out, func(i, j int) bool { return out[i][0]+out[i][1]+out[i][2] < out[j][0]+out[j][1]+out[j][2] })
	return out
}
