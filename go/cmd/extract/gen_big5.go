package main

import (
	"fmt"
	"go/constant"
)

// Gen/Big5.lean: the default table-file names of types/00-config.go (C17). The Lean driver reads
// the files named here (relative to the repository root); the tables themselves are far too large
// for a Lean literal and are parsed at run time by the modelled parser.
func init() {
	register("Big5", func(l *loader, repo, out string) {
		p := l.load("types")
		lf := newLean("Big5")
		for _, v := range []struct{ lean, goName string }{{"b2uPath", "BIG5_TO_UTF8"}, {"u2bPath", "UTF8_TO_BIG5"}} {
			e := varInit(p, v.goName)
			tv, ok := p.TypesInfo.Types[e]
			if !ok || tv.Value == nil || tv.Value.Kind() != constant.String {
				fatal("types.%s: initialiser is not a string constant", v.goName)
			}
			lf.raw(fmt.Sprintf("def %s : String := %q\n", v.lean, constant.StringVal(tv.Value)))
		}
		lf.write(out)
	})
}
