package main

import (
	"fmt"
	"go/ast"
	"go/constant"
	"go/token"
	"go/types"
	"math"
	"os"
	"sort"
	"strings"

	"golang.org/x/tools/go/packages"
)

// Gen/Post.lean (C09): the data the publishing path depends on:
//   ptttype/common.go     TN_ANNOUNCE_BIG5, STR_AUTHOR1_BIG5, STR_POST1_BIG5, STR_TITLE_BIG5, STR_TIME_BIG5,
//                         STR_BBS_BIG5, STR_FROM_BIG5, STR_URL_DISPLAYNAME_BIG5
//   ptttype/00-config.go  BBSNAME_BIG5, MYHOSTNAME, URL_PREFIX, MAX_POST_MONEY, ENTROPY_RATIO (-> ENTROPY_MAX),
//                         the switches ALLOW_FREE_TN_ANNOUNCE, HAVE_ANONYMOUS, USE_POST_ENTROPY,
//                         QUERY_ARTICLE_URL, USE_AID_URL
//   ptttype/const.go      TTLEN, IDLEN, ANONYMOUS_ID, ANONYMOUS_NICKNAME, ANONYMOUS_HOST,
//                         PATTERN_ANSI_MOVECMD, PATTERN_ANSI_CODE
//   ptttype/file_mode.go  FILE_ANONYMOUS
//   types/ansi            ESC_CHR
// The FileHeaderRaw field offsets and the strides come from Gen/RecFile.lean (C05).

func postVarValue(p *packages.Package, name string) constant.Value {
	e := varInit(p, name)
	tv, ok := p.TypesInfo.Types[e]
	if !ok || tv.Value == nil {
		fatal("%s.%s: initialiser is not a constant expression", p.PkgPath, name)
	}
	return tv.Value
}

func postVarBool(p *packages.Package, name string) string {
	v := postVarValue(p, name)
	if v.Kind() != constant.Bool {
		fatal("%s.%s: not a bool", p.PkgPath, name)
	}
	if constant.BoolVal(v) {
		return "true"
	}
	return "false"
}

func postVarString(p *packages.Package, name string) string {
	v := postVarValue(p, name)
	if v.Kind() != constant.String {
		fatal("%s.%s: not a string", p.PkgPath, name)
	}
	return constant.StringVal(v)
}

// postBytes reads a []byte{...} / []byte("...") / &T{...} initialiser.
func postBytes(p *packages.Package, name string) []string {
	e := ast.Unparen(varInit(p, name))
	if u, ok := e.(*ast.UnaryExpr); ok && u.Op == token.AND {
		e = u.X
	}
	flat, dims := litInts(p, e)
	if len(dims) != 1 {
		fatal("%s.%s: unexpected shape %v", p.PkgPath, name, dims)
	}
	return flat
}

func init() {
	register("Post", func(l *loader, repo, out string) {
		pt := l.load("ptttype")
		an := l.load("types/ansi")
		lf := newLean("Post")
		for _, n := range []string{"TN_ANNOUNCE_BIG5", "STR_AUTHOR1_BIG5", "STR_POST1_BIG5", "STR_TITLE_BIG5", "STR_TIME_BIG5",
			"STR_BBS_BIG5", "STR_FROM_BIG5", "STR_URL_DISPLAYNAME_BIG5", "BBSNAME_BIG5",
			"ANONYMOUS_ID", "ANONYMOUS_NICKNAME", "ANONYMOUS_HOST", "PATTERN_ANSI_MOVECMD", "PATTERN_ANSI_CODE"} {
			lf.natList(n, postBytes(pt, n))
		}
		lf.natList("MYHOSTNAME", bytesOf(postVarString(pt, "MYHOSTNAME")))
		lf.natList("URL_PREFIX", bytesOf(postVarString(pt, "URL_PREFIX")))
		for _, c := range []string{"TTLEN", "IDLEN", "FILE_ANONYMOUS"} {
			lf.nat(c, constInt(pt, c))
		}
		lf.nat("ESC_CHR", constInt(an, "ESC_CHR"))
		// ENTROPY_MAX = int(float64(MAX_POST_MONEY) * ENTROPY_RATIO): evaluated here exactly as the
		// initialiser does (float64 product, truncation), from the two literals.
		mv := postVarValue(pt, "MAX_POST_MONEY")
		m, ok := constant.Int64Val(constant.ToInt(mv))
		if !ok {
			fatal("MAX_POST_MONEY: not an integer")
		}
		rv := postVarValue(pt, "ENTROPY_RATIO")
		r, _ := constant.Float64Val(rv)
		em := int64(math.Trunc(float64(m) * r))
		if em < 0 {
			fatal("ENTROPY_MAX negative")
		}
		// the initialiser of ENTROPY_MAX must still be that expression
		if s := postExprString(pt, varInit(pt, "ENTROPY_MAX")); s != "int(float64(MAX_POST_MONEY) * ENTROPY_RATIO)" {
			fatal("ENTROPY_MAX: initialiser changed to %q; teach gen_post.go", s)
		}
		lf.nat("MAX_POST_MONEY", m)
		lf.nat("ENTROPY_MAX", em)
		for _, b := range []string{"ALLOW_FREE_TN_ANNOUNCE", "HAVE_ANONYMOUS", "USE_POST_ENTROPY", "QUERY_ARTICLE_URL", "USE_AID_URL"} {
			lf.raw(fmt.Sprintf("def %s : Bool := %s\n", b, postVarBool(pt, b)))
		}
		// which configuration variables (assigned in ptttype/config.go: config()) each decision site reads
		cfgVars := postConfigVars(pt)
		pp := l.load("ptt")
		lf.raw("\n/-! configuration variables (left-hand sides of ptttype/config.go) read by each decision site -/\n")
		lf.raw("def siteConfig : List (String × List String) := [")
		for i, fn := range []string{"checkBoardAnonymous", "writeHeaderAuthor", "isTnAllowed", "WriteFile", "GetWebURL", "addSimpleSignature", "DoPostArticle"} {
			if i > 0 {
				lf.raw(",")
			}
			vs := postFuncConfigReads(pp, fn, cfgVars)
			qs := make([]string, len(vs))
			for k, v := range vs {
				qs[k] = fmt.Sprintf("%q", v)
			}
			lf.raw(fmt.Sprintf("\n  (%q, [%s])", fn, strings.Join(qs, ", ")))
		}
		lf.raw("]\n")
		lf.write(out)
	})
}

// postConfigVars: the package variables assigned inside ptttype.config().
func postConfigVars(p *packages.Package) map[string]bool {
	out := map[string]bool{}
	for _, f := range p.Syntax {
		for _, d := range f.Decls {
			fd, ok := d.(*ast.FuncDecl)
			if !ok || fd.Recv != nil || fd.Name.Name != "config" || fd.Body == nil {
				continue
			}
			ast.Inspect(fd.Body, func(n ast.Node) bool {
				as, ok := n.(*ast.AssignStmt)
				if !ok {
					return true
				}
				for _, lhs := range as.Lhs {
					if id, ok := lhs.(*ast.Ident); ok {
						if v, ok := p.TypesInfo.Uses[id].(*types.Var); ok && v.Parent() == p.Types.Scope() {
							out[v.Name()] = true
						}
					}
				}
				return true
			})
		}
	}
	if len(out) == 0 {
		fatal("ptttype.config(): no configuration variables found")
	}
	return out
}

// postFuncConfigReads: sorted names of the configuration variables a function of package ptt mentions.
func postFuncConfigReads(p *packages.Package, name string, cfg map[string]bool) []string {
	seen := map[string]bool{}
	found := false
	for _, f := range p.Syntax {
		for _, d := range f.Decls {
			fd, ok := d.(*ast.FuncDecl)
			if !ok || fd.Recv != nil || fd.Name.Name != name || fd.Body == nil {
				continue
			}
			found = true
			ast.Inspect(fd.Body, func(n ast.Node) bool {
				if id, ok := n.(*ast.Ident); ok {
					if v, ok := p.TypesInfo.Uses[id].(*types.Var); ok && v.Pkg() != nil && v.Pkg().Path() == modPath+"/ptttype" &&
						v.Parent() == v.Pkg().Scope() && cfg[v.Name()] {
						seen[v.Name()] = true
					}
				}
				return true
			})
		}
	}
	if !found {
		fatal("ptt.%s: no such function", name)
	}
	out := make([]string, 0, len(seen))
	for k := range seen {
		out = append(out, k)
	}
	sort.Strings(out)
	return out
}

func postExprString(p *packages.Package, e ast.Expr) string {
	start := p.Fset.Position(e.Pos())
	end := p.Fset.Position(e.End())
	for _, f := range p.Syntax {
		fp := p.Fset.Position(f.Pos())
		if fp.Filename == start.Filename {
			src, err := os.ReadFile(start.Filename)
			if err != nil {
				fatal("%v", err)
			}
			return string(src[start.Offset:end.Offset])
		}
	}
	return ""
}
