package main

import (
	"bytes"
	"go/ast"
	"go/constant"
	"go/printer"
	"go/token"
	"go/types"
	"strings"

	"golang.org/x/tools/go/packages"
)

// Gen/RecFile.lean (C05): strides of the record files, the packed (encoding/binary)
// sizes of the record types stored in them, the packed field layout of
// FileHeaderRaw that ptt.ModifyDirLite rewrites, the safe-delete mark and the
// recommend clamp.

// rfPackedSize is the number of bytes encoding/binary writes for a value of type t
// (fixed-size types only: no alignment padding, arrays and structs flattened).
func rfPackedSize(t types.Type) int64 {
	switch u := t.Underlying().(type) {
	case *types.Basic:
		switch u.Kind() {
		case types.Bool, types.Int8, types.Uint8:
			return 1
		case types.Int16, types.Uint16:
			return 2
		case types.Int32, types.Uint32, types.Float32:
			return 4
		case types.Int64, types.Uint64, types.Float64, types.Complex64:
			return 8
		case types.Complex128:
			return 16
		}
		fatal("rfPackedSize: type %v has no fixed encoding/binary size", t)
	case *types.Array:
		return u.Len() * rfPackedSize(u.Elem())
	case *types.Struct:
		var s int64
		for i := 0; i < u.NumFields(); i++ {
			s += rfPackedSize(u.Field(i).Type())
		}
		return s
	}
	fatal("rfPackedSize: unsupported type %v", t)
	return 0
}

func rfStruct(p *packages.Package, name string) *types.Struct {
	st, ok := lookup(p, name).Type().Underlying().(*types.Struct)
	if !ok {
		fatal("%s.%s is not a struct", p.PkgPath, name)
	}
	return st
}

// rfField returns the packed offset and packed length of a named top-level field.
func rfField(p *packages.Package, st *types.Struct, sname, fname string) (off, ln int64) {
	for i := 0; i < st.NumFields(); i++ {
		f := st.Field(i)
		if f.Name() == fname {
			return off, rfPackedSize(f.Type())
		}
		off += rfPackedSize(f.Type())
	}
	fatal("%s.%s: no field %s", p.PkgPath, sname, fname)
	return
}

// rfFuncDecl finds a package-level function (no receiver).
func rfFuncDecl(p *packages.Package, name string) *ast.FuncDecl {
	for _, f := range p.Syntax {
		for _, d := range f.Decls {
			if fd, ok := d.(*ast.FuncDecl); ok && fd.Recv == nil && fd.Name.Name == name && fd.Body != nil {
				return fd
			}
		}
	}
	fatal("%s: no function %s", p.PkgPath, name)
	return nil
}

func rfExprText(p *packages.Package, e ast.Expr) string {
	var buf bytes.Buffer
	_ = printer.Fprint(&buf, p.Fset, e)
	return buf.String()
}

// rfCountGuard reads the first `if <ident> > c` / `if <ident> >= c` of a function whose left operand is
// the variable assigned from cmsys.GetNumRecords: the limit (evaluated by the type checker, so a literal
// and a named constant read the same) and whether the comparison is strict.
func rfCountGuard(p *packages.Package, fn string) (limit int64, strict bool) {
	fd := rfFuncDecl(p, fn)
	found := false
	ast.Inspect(fd.Body, func(n ast.Node) bool {
		if found {
			return false
		}
		is, ok := n.(*ast.IfStmt)
		if !ok {
			return true
		}
		be, ok := is.Cond.(*ast.BinaryExpr)
		if !ok || (be.Op != token.GTR && be.Op != token.GEQ) {
			return true
		}
		id, ok := be.X.(*ast.Ident)
		if !ok || id.Name != "n" {
			return true
		}
		tv, ok := p.TypesInfo.Types[be.Y]
		if !ok || tv.Value == nil {
			return true
		}
		v, ok := constant.Int64Val(constant.ToInt(tv.Value))
		if !ok {
			return true
		}
		limit, strict, found = v, be.Op == token.GTR, true
		return false
	})
	if !found {
		fatal("%s.%s: no `if n > c` / `if n >= c` guard on the record count", p.PkgPath, fn)
	}
	return
}

// rfSubstituteIndex returns the text of the index argument addBoardRecord hands to cmsys.SubstituteRecord.
func rfSubstituteIndex(p *packages.Package, fn string) string {
	fd := rfFuncDecl(p, fn)
	text := ""
	ast.Inspect(fd.Body, func(n ast.Node) bool {
		call, ok := n.(*ast.CallExpr)
		if !ok {
			return true
		}
		if sel, ok := call.Fun.(*ast.SelectorExpr); ok && sel.Sel.Name == "SubstituteRecord" && len(call.Args) == 4 && text == "" {
			text = rfExprText(p, call.Args[3])
		}
		return true
	})
	if text == "" {
		fatal("%s.%s: no call of SubstituteRecord", p.PkgPath, fn)
	}
	return text
}

// rfCallsMethod reports whether the function body calls a method of the given name (x.Name(...)).
func rfCallsMethod(fd *ast.FuncDecl, name string) bool {
	found := false
	ast.Inspect(fd.Body, func(n ast.Node) bool {
		if call, ok := n.(*ast.CallExpr); ok {
			if sel, ok := call.Fun.(*ast.SelectorExpr); ok && sel.Sel.Name == name {
				found = true
			}
		}
		return !found
	})
	return found
}

// rfGuardOfCall returns the text of the condition of the innermost `if` whose body calls pkg.fn.
func rfGuardOfCall(p *packages.Package, fd *ast.FuncDecl, pkg, fn string) string {
	text := ""
	var walk func(n ast.Node, guard string)
	walk = func(n ast.Node, guard string) {
		ast.Inspect(n, func(m ast.Node) bool {
			switch x := m.(type) {
			case *ast.IfStmt:
				if x.Init != nil {
					walk(x.Init, guard)
				}
				walk(x.Body, rfExprText(p, x.Cond))
				if x.Else != nil {
					walk(x.Else, guard)
				}
				return false
			case *ast.CallExpr:
				if sel, ok := x.Fun.(*ast.SelectorExpr); ok && sel.Sel.Name == fn {
					if id, ok := sel.X.(*ast.Ident); ok && id.Name == pkg && text == "" {
						text = guard
					}
				}
			}
			return true
		})
	}
	walk(fd.Body, "")
	return text
}

func rfLeanStr(s string) string {
	return "\"" + strings.ReplaceAll(strings.ReplaceAll(s, "\\", "\\\\"), "\"", "\\\"") + "\""
}

// rfMethodDecl finds a method by receiver type name and method name.
func rfMethodDecl(p *packages.Package, recv, name string) *ast.FuncDecl {
	for _, f := range p.Syntax {
		for _, d := range f.Decls {
			fd, ok := d.(*ast.FuncDecl)
			if !ok || fd.Recv == nil || fd.Name.Name != name || fd.Body == nil || len(fd.Recv.List) != 1 {
				continue
			}
			t := fd.Recv.List[0].Type
			if st, ok := t.(*ast.StarExpr); ok {
				t = st.X
			}
			if id, ok := t.(*ast.Ident); ok && id.Name == recv {
				return fd
			}
		}
	}
	fatal("%s: no method %s.%s", p.PkgPath, recv, name)
	return nil
}

// rfRangeGuard reads `return u >= lo && u <= hi` (the body of UID.IsValid): both bounds, evaluated by the
// type checker; ok=false if the body has another shape.
func rfRangeGuard(p *packages.Package, fd *ast.FuncDecl) (lo, hi int64, ok bool) {
	if len(fd.Body.List) != 1 {
		return
	}
	ret, isRet := fd.Body.List[0].(*ast.ReturnStmt)
	if !isRet || len(ret.Results) != 1 {
		return
	}
	and, isBin := ret.Results[0].(*ast.BinaryExpr)
	if !isBin || and.Op != token.LAND {
		return
	}
	l, okl := and.X.(*ast.BinaryExpr)
	r, okr := and.Y.(*ast.BinaryExpr)
	if !okl || !okr || l.Op != token.GEQ || r.Op != token.LEQ {
		return
	}
	val := func(e ast.Expr) (int64, bool) {
		tv, has := p.TypesInfo.Types[e]
		if !has || tv.Value == nil {
			return 0, false
		}
		return constant.Int64Val(constant.ToInt(tv.Value))
	}
	var ok1, ok2 bool
	lo, ok1 = val(l.Y)
	hi, ok2 = val(r.Y)
	return lo, hi, ok1 && ok2
}

// rfStartsWithUidValid: the first statement of the function is `if !uid.IsValid() { return ... }`.
func rfStartsWithUidValid(p *packages.Package, fd *ast.FuncDecl) bool {
	if len(fd.Body.List) == 0 {
		return false
	}
	is, ok := fd.Body.List[0].(*ast.IfStmt)
	if !ok || is.Init != nil {
		return false
	}
	return rfExprText(p, is.Cond) == "!uid.IsValid()"
}

// rfAlignedField: unsafe.Offsetof of a top-level field (what the seek arithmetic uses) and its packed length.
func rfAlignedField(p *packages.Package, st *types.Struct, fname string) (off, ln int64) {
	var fields []*types.Var
	idx := -1
	for i := 0; i < st.NumFields(); i++ {
		fields = append(fields, st.Field(i))
		if st.Field(i).Name() == fname {
			idx = i
		}
	}
	if idx < 0 {
		fatal("no field %s", fname)
	}
	offs := p.TypesSizes.Offsetsof(fields)
	return offs[idx], rfPackedSize(fields[idx].Type())
}

func rfBool(b bool) string {
	if b {
		return "true"
	}
	return "false"
}

func init() {
	register("RecFile", func(l *loader, repo, out string) {
		pt := l.load("ptttype")
		pp := l.load("ptt")
		lf := newLean("RecFile")
		lf.raw("/-! strides (unsafe.Sizeof, evaluated by the Go type checker) -/\n")
		lf.nat("FILE_HEADER_RAW_SZ", constInt(pt, "FILE_HEADER_RAW_SZ"))
		lf.nat("BOARD_HEADER_RAW_SZ", constInt(pt, "BOARD_HEADER_RAW_SZ"))
		lf.nat("USEREC_RAW_SZ", constInt(pt, "USEREC_RAW_SZ"))
		lf.nat("POSTLOG_SZ", constInt(pp, "POSTLOG_SZ"))
		lf.raw("\n/-! packed sizes: the number of bytes encoding/binary writes for one value -/\n")
		lf.nat("packedFileHeaderRaw", rfPackedSize(lookup(pt, "FileHeaderRaw").Type()))
		lf.nat("packedBoardHeaderRaw", rfPackedSize(lookup(pt, "BoardHeaderRaw").Type()))
		lf.nat("packedUserecRaw", rfPackedSize(lookup(pt, "UserecRaw").Type()))
		lf.nat("packedPostLog", rfPackedSize(lookup(pp, "PostLog").Type()))
		lf.raw("\n/-! packed layout of FileHeaderRaw (offset, length) of the fields ModifyDirLite touches -/\n")
		st := rfStruct(pt, "FileHeaderRaw")
		for _, f := range []string{"Filename", "Modified", "Recommend", "Owner", "Date", "Title", "Multi", "Filemode"} {
			off, ln := rfField(pt, st, "FileHeaderRaw", f)
			lf.nat("off"+f, off)
			lf.nat("len"+f, ln)
		}
		lf.raw("\n")
		mark, dims := litInts(pt, varInit(pt, "FN_SAFEDEL"))
		if len(dims) != 1 {
			fatal("FN_SAFEDEL: unexpected shape %v", dims)
		}
		lf.natList("fnSafeDel", mark)
		lf.nat("MAX_RECOMMENDS", constInt(pt, "MAX_RECOMMENDS"))
		lf.raw("\n/-! callers of the record primitives: ptt.addBoardRecord (.BRD) and the .DIR.bottom count guards in cache -/\n")
		lf.nat("MAX_BOARD", constInt(pt, "MAX_BOARD"))
		idx := rfSubstituteIndex(pp, "addBoardRecord")
		lf.raw("/-- the index expression addBoardRecord passes to SubstituteRecord -/\n")
		lf.raw("def addBoardIndexExpr : String := \"" + strings.ReplaceAll(idx, "\"", "\\\"") + "\"\n")
		lf.raw("/-- it converts the 1-based board id to the 0-based record index (`bid.ToBidInStore()`) -/\n")
		lf.raw("def addBoardIndexIsStoreIndex : Bool := " + rfBool(idx == "int32(bid.ToBidInStore())") + "\n")
		pc := l.load("cache")
		lim, strict := rfCountGuard(pc, "SetBottomTotal")
		lf.raw("/-- cache.SetBottomTotal unlinks .DIR.bottom when the count is `> limit` (strict) or `>= limit` -/\n")
		lf.nat("setBottomLimit", lim)
		lf.raw("def setBottomStrict : Bool := " + rfBool(strict) + "\n")
		lim, strict = rfCountGuard(pc, "reloadCacheLoadBottom")
		lf.raw("/-- cache.reloadCacheLoadBottom clamps the cached count when it is `> limit` (strict) or `>= limit` -/\n")
		lf.nat("reloadBottomLimit", lim)
		lf.raw("def reloadBottomStrict : Bool := " + rfBool(strict) + "\n")
		lf.raw("\n/-! the request layer: how a hit of the name lookup is confirmed before a record is modified / delete-marked -/\n")
		lf.nat("FILE_MARKED", constInt(pt, "FILE_MARKED"))
		lf.nat("FILE_SOLVED", constInt(pt, "FILE_SOLVED"))
		pcm := l.load("cmsys")
		lf.raw("/-- cmsys.GetRecord compares the record found with the requested name (`filename.Eq(&fhdr.Filename)`) -/\n")
		lf.raw("def getRecordConfirmsName : Bool := " + rfBool(rfCallsMethod(rfFuncDecl(pcm, "GetRecord"), "Eq")) + "\n")
		pb := l.load("bbs")
		guard := rfGuardOfCall(pb, rfFuncDecl(pb, "DeleteArticles"), "ptt", "DeleteArticles")
		lf.raw("/-- the condition under which bbs.DeleteArticles calls ptt.DeleteArticles -/\n")
		lf.raw("def deleteConfirmExpr : String := " + rfLeanStr(guard) + "\n")
		lf.raw("def deleteConfirmsArticleID : Bool := " + rfBool(guard == "articleID == articleSummary.ArticleID") + "\n")
		lf.raw("def deleteConfirmsCreateTimeOnly : Bool := " + rfBool(guard != "articleID == articleSummary.ArticleID" && strings.Contains(strings.ToLower(guard), "createtime") && !strings.Contains(guard, "ArticleID")) + "\n")
		lf.raw("\n/-! the .PASSWDS accessors of cmbbs: the uid guard and the field offsets they seek to -/\n")
		lf.nat("MAX_USERS", constInt(pt, "MAX_USERS"))
		lo, hi, okR := rfRangeGuard(pt, rfMethodDecl(pt, "UID", "IsValid"))
		lf.raw("/-- UID.IsValid is `u >= uidLo && u <= uidHi` -/\n")
		lf.raw("def uidValidIsRange : Bool := " + rfBool(okR) + "\n")
		lf.nat("uidLo", lo)
		lf.nat("uidHi", hi)
		pcb := l.load("cmbbs")
		all := true
		for _, fn := range []string{"PasswdQuery", "PasswdQueryPasswd", "PasswdQueryUserLevel", "PasswdUpdate", "PasswdUpdatePasswd", "PasswdUpdateEmail"} {
			if !rfStartsWithUidValid(pcb, rfFuncDecl(pcb, fn)) {
				all = false
			}
		}
		lf.raw("/-- each of the six accessors starts with `if !uid.IsValid() { return … }` -/\n")
		lf.raw("def passwdGuardIsUidValid : Bool := " + rfBool(all) + "\n")
		ust := rfStruct(pt, "UserecRaw")
		for _, f := range []string{"UserID", "Money", "PasswdHash", "UserLevel", "Email"} {
			off, ln := rfAlignedField(pt, ust, f)
			lf.nat("pwOff"+f, off)
			lf.nat("pwLen"+f, ln)
		}
		// ptt.pwcuStart: how the (uid, user-id) pair a session holds is compared with the record
		cmp := ""
		ast.Inspect(rfFuncDecl(pp, "pwcuStart").Body, func(n ast.Node) bool {
			if is, ok := n.(*ast.IfStmt); ok && cmp == "" && strings.Contains(rfExprText(pp, is.Cond), "userID") {
				cmp = rfExprText(pp, is.Cond)
			}
			return true
		})
		lf.raw("/-- the condition under which ptt.pwcuStart refuses the (uid, user-id) pair -/\n")
		lf.raw("def pwcuStartRefuseExpr : String := " + rfLeanStr(cmp) + "\n")
		lf.raw("def pwcuStartComparesExact : Bool := " + rfBool(cmp == "types.Cstrcmp(userID[:], user.UserID[:]) != 0") + "\n")
		// ptt.passwdSyncUpdate, the funnel of every whole-record store of the ptt layer: does it re-sync Money?
		resync := false
		ast.Inspect(rfFuncDecl(pp, "passwdSyncUpdate").Body, func(n ast.Node) bool {
			if as, ok := n.(*ast.AssignStmt); ok && len(as.Lhs) == 1 && len(as.Rhs) == 1 &&
				rfExprText(pp, as.Lhs[0]) == "user.Money" && rfExprText(pp, as.Rhs[0]) == "cache.MoneyOf(uid)" {
				resync = true
			}
			return true
		})
		lf.raw("/-- ptt.passwdSyncUpdate executes `user.Money = cache.MoneyOf(uid)` before cmbbs.PasswdUpdate -/\n")
		lf.raw("def storeFunnelResyncsMoney : Bool := " + rfBool(resync) + "\n")
		lf.write(out)
	})
}
