package main

import (
	"go/types"

	"golang.org/x/tools/go/packages"
)

// Gen/RecFile.lean (C05): strides of the record files, the packed (encoding/binary)
// sizes of the record types stored in them, the packed field layout of
// FileHeaderRaw that ptt.ModifyDirLite rewrites, the safe-delete mark and the
// recommend clamp.

// rfPackedSize is the number of bytes encoding/binary writes for a value of type t
// (fixed-size types only: no alignment padding, arrays and structs flattened).
func rfPackedSize(t types.Type) int64 {
	switch u := t.Underlying().(type) {
	case *types.Basic:
		switch u.Kind() {
		case types.Bool, types.Int8, types.Uint8:
			return 1
		case types.Int16, types.Uint16:
			return 2
		case types.Int32, types.Uint32, types.Float32:
			return 4
		case types.Int64, types.Uint64, types.Float64, types.Complex64:
			return 8
		case types.Complex128:
			return 16
		}
		fatal("rfPackedSize: type %v has no fixed encoding/binary size", t)
	case *types.Array:
		return u.Len() * rfPackedSize(u.Elem())
	case *types.Struct:
		var s int64
		for i := 0; i < u.NumFields(); i++ {
			s += rfPackedSize(u.Field(i).Type())
		}
		return s
	}
	fatal("rfPackedSize: unsupported type %v", t)
	return 0
}

func rfStruct(p *packages.Package, name string) *types.Struct {
	st, ok := lookup(p, name).Type().Underlying().(*types.Struct)
	if !ok {
		fatal("%s.%s is not a struct", p.PkgPath, name)
	}
	return st
}

// rfField returns the packed offset and packed length of a named top-level field.
func rfField(p *packages.Package, st *types.Struct, sname, fname string) (off, ln int64) {
	for i := 0; i < st.NumFields(); i++ {
		f := st.Field(i)
		if f.Name() == fname {
			return off, rfPackedSize(f.Type())
		}
		off += rfPackedSize(f.Type())
	}
	fatal("%s.%s: no field %s", p.PkgPath, sname, fname)
	return
}

func init() {
	register("RecFile", func(l *loader, repo, out string) {
		pt := l.load("ptttype")
		pp := l.load("ptt")
		lf := newLean("RecFile")
		lf.raw("/-! strides (unsafe.Sizeof, evaluated by the Go type checker) -/\n")
		lf.nat("FILE_HEADER_RAW_SZ", constInt(pt, "FILE_HEADER_RAW_SZ"))
		lf.nat("BOARD_HEADER_RAW_SZ", constInt(pt, "BOARD_HEADER_RAW_SZ"))
		lf.nat("USEREC_RAW_SZ", constInt(pt, "USEREC_RAW_SZ"))
		lf.nat("POSTLOG_SZ", constInt(pp, "POSTLOG_SZ"))
		lf.raw("\n/-! packed sizes: the number of bytes encoding/binary writes for one value -/\n")
		lf.nat("packedFileHeaderRaw", rfPackedSize(lookup(pt, "FileHeaderRaw").Type()))
		lf.nat("packedBoardHeaderRaw", rfPackedSize(lookup(pt, "BoardHeaderRaw").Type()))
		lf.nat("packedUserecRaw", rfPackedSize(lookup(pt, "UserecRaw").Type()))
		lf.nat("packedPostLog", rfPackedSize(lookup(pp, "PostLog").Type()))
		lf.raw("\n/-! packed layout of FileHeaderRaw (offset, length) of the fields ModifyDirLite touches -/\n")
		st := rfStruct(pt, "FileHeaderRaw")
		for _, f := range []string{"Filename", "Modified", "Recommend", "Owner", "Date", "Title", "Multi", "Filemode"} {
			off, ln := rfField(pt, st, "FileHeaderRaw", f)
			lf.nat("off"+f, off)
			lf.nat("len"+f, ln)
		}
		lf.raw("\n")
		mark, dims := litInts(pt, varInit(pt, "FN_SAFEDEL"))
		if len(dims) != 1 {
			fatal("FN_SAFEDEL: unexpected shape %v", dims)
		}
		lf.natList("fnSafeDel", mark)
		lf.nat("MAX_RECOMMENDS", constInt(pt, "MAX_RECOMMENDS"))
		lf.write(out)
	})
}
