package main

// Gen/WriteGuards.lean (C08): what the SOURCE says about the four write entry points.
//
// For each of ptt.DoPostArticle (= NewPost), ptt.Recommend, ptt.EditPost and ptt.CrossPost the body is
// read as an ordered list of EVENTS:
//
//   .guard c e      a `return …, <error>` reached under the path condition c (the conjunction of the
//                   enclosing `if` conditions, `else` branches negated); e is the identifier returned
//                   ("ErrNotPermitted") or "=<callee>" when the error of an earlier call is passed on;
//   .effect n p c   a call of a side-effecting function n (p: persistent, i.e. it touches board files,
//                   the board index or a .PASSWDS record) under the path condition c.
//
// Conditions are translated into a small boolean language over atoms ("the user has one of the bits m",
// "boardPermStat on the source/target board is NBRD_INVALID", "checkCooldown returned true" …); which
// board a test is about (source = boardID/bid, target = xBoardID/xBid) is resolved from the variables
// handed to the call.  An expression the translator does not know becomes `.opaque "<text>"`.
//
// Also regenerated: the `limit` table of checkCooldown, the masks used by the cool-down word accessors,
// the permission / attribute / file-mode bits, the reserved board names and the configuration switches the
// guards mention.
//
// The Lean model (Model/C08.lean) interprets the event lists; theorems about "which clauses an operation
// enforces" and "no persistent effect before the last permission test" are kernel-checked over this data.

import (
	"fmt"
	"go/ast"
	"go/constant"
	"go/token"
	"go/types"
	"strconv"
	"strings"

	"golang.org/x/tools/go/packages"
)

// calls that change something. true = persistent (files / index / .PASSWDS / cool-down word of a later post).
var wgEffects = map[string]bool{
	"Stampfile": true, "StampfileU": true, "WriteFile": true, "doPostArticleWriteFile": true,
	"crossPostWriteFile": true, "AppendRecord": true, "ModifyDirLite": true, "doAddRecommend": true,
	"Unlink": true, "Rename": true, "logCrosspostInAllpost": true, "doCrosspost": true,
	"SetBTotal": true, "AddCooldownTime": true, "AddPosttimes": true, "brcAddList": true,
	"pwcuIncNumPost": true, "SubstituteRecord": true, "DeleteRecord": true, "CopyFileToFile": true,
	"Remove": true, "Mkdir": true, "OpenFile": true, "Create": true,
	"SetUtmpMode": false, // the user's online-status slot in shared memory; not persisted
}

type wgBind struct {
	callee string
	brd    string // "src", "tgt" or ""
}

type wgCtx struct {
	p      *packages.Package
	fn     string
	params map[types.Object]string // parameter -> "src"/"tgt" (board id / bid) or "user", "uid", "filename"
	boards map[types.Object]string // board header variable -> "src"/"tgt"
	bind   map[types.Object]wgBind // statAttr / err / reason / isCooldown / total / fhdr
	events []string
}

func (c *wgCtx) pos(n ast.Node) string { return c.p.Fset.Position(n.Pos()).String() }

func wgCallee(call *ast.CallExpr) string {
	switch f := ast.Unparen(call.Fun).(type) {
	case *ast.SelectorExpr:
		return f.Sel.Name
	case *ast.Ident:
		return f.Name
	}
	return ""
}

func (c *wgCtx) obj(e ast.Expr) types.Object {
	id, ok := ast.Unparen(e).(*ast.Ident)
	if !ok {
		return nil
	}
	if o := c.p.TypesInfo.Uses[id]; o != nil {
		return o
	}
	return c.p.TypesInfo.Defs[id]
}

// brdOf resolves an expression that names a board (header variable, bid, board id, &board.Brdname) to src/tgt.
func (c *wgCtx) brdOf(e ast.Expr) string {
	e = ast.Unparen(e)
	if u, ok := e.(*ast.UnaryExpr); ok && u.Op == token.AND {
		return c.brdOf(u.X)
	}
	if s, ok := e.(*ast.SelectorExpr); ok {
		return c.brdOf(s.X)
	}
	o := c.obj(e)
	if o == nil {
		return ""
	}
	if b, ok := c.boards[o]; ok {
		return b
	}
	if b, ok := c.params[o]; ok && (b == "src" || b == "tgt") {
		return b
	}
	return ""
}

// brdOfCall: the board a guard call is about; every board-naming argument must agree.
func (c *wgCtx) brdOfCall(call *ast.CallExpr) string {
	b := ""
	for _, a := range call.Args {
		x := c.brdOf(a)
		if x == "" {
			continue
		}
		if b != "" && b != x {
			if wgGuardCallees[wgCallee(call)] {
				fatal("%s: %s mixes the source and the target board in one call (%s)", c.fn, wgCallee(call), c.pos(call))
			}
			return ""
		}
		b = x
	}
	return b
}

// calls that are permission decisions about one board: header and bid must name the same board.
var wgGuardCallees = map[string]bool{
	"boardPermStat": true, "CheckPostPerm2": true, "CheckModifyPerm": true, "postpermMsg": true, "hasPostPerm": true,
	"CheckPostRestriction": true, "getBoardRestrictionReason": true, "checkCooldown": true, "getFileHeader": true,
}

func (c *wgCtx) constNat(e ast.Expr) (string, bool) {
	tv, ok := c.p.TypesInfo.Types[e]
	if !ok || tv.Value == nil {
		return "", false
	}
	switch tv.Value.Kind() {
	case constant.Int:
		return constant.ToInt(tv.Value).ExactString(), true
	}
	return "", false
}

func brdLean(b string) string {
	if b == "tgt" {
		return ".tgt"
	}
	return ".src"
}

func atom(s string) string { return "(.atom (" + s + "))" }

func (c *wgCtx) opaque(e ast.Expr) string {
	return atom(".opaque " + strconv.Quote(types.ExprString(e)))
}

// isUserLevel: expression `user.UserLevel` on the user parameter.
func (c *wgCtx) isUserLevel(e ast.Expr) bool {
	s, ok := ast.Unparen(e).(*ast.SelectorExpr)
	if !ok || s.Sel.Name != "UserLevel" {
		return false
	}
	o := c.obj(s.X)
	return o != nil && c.params[o] == "user"
}

func (c *wgCtx) isFhdr(e ast.Expr) bool {
	o := c.obj(e)
	if o == nil {
		return false
	}
	b, ok := c.bind[o]
	return ok && b.callee == "fhdr"
}

// guardCallAtom: a call used as a boolean / compared with nil.
func (c *wgCtx) callAtom(call *ast.CallExpr, neNil bool) (string, bool) {
	name := wgCallee(call)
	switch name {
	case "CheckPostPerm2", "CheckModifyPerm", "postpermMsg":
		if neNil {
			return atom(".postPermErr " + brdLean(c.brdOfCall(call))), true
		}
	case "hasPostPerm":
		if !neNil {
			return atom(".hasPostPerm " + brdLean(c.brdOfCall(call))), true
		}
	case "CheckPostRestriction":
		if !neNil {
			return atom(".restrictionOk " + brdLean(c.brdOfCall(call))), true
		}
	case "isReadonlyBoard":
		if !neNil {
			return atom(".readonlyName " + brdLean(c.brdOfCall(call))), true
		}
	case "isFileOwner":
		if !neNil && len(call.Args) == 2 && c.isFhdr(call.Args[0]) {
			return atom(".fileOwner"), true
		}
	case "HasUserPerm":
		if sel, ok := call.Fun.(*ast.SelectorExpr); ok && !neNil && len(call.Args) == 1 && c.isUserLevel(sel.X) {
			if m, ok := c.constNat(call.Args[0]); ok {
				return atom(".userPerm " + m), true
			}
		}
	case "HasPerm":
		if sel, ok := call.Fun.(*ast.SelectorExpr); ok && !neNil && len(call.Args) == 1 {
			if s2, ok := ast.Unparen(sel.X).(*ast.SelectorExpr); ok && s2.Sel.Name == "BrdAttr" {
				if b := c.brdOf(s2.X); b != "" {
					if m, ok := c.constNat(call.Args[0]); ok {
						return atom(".brdAttr " + brdLean(b) + " " + m), true
					}
				}
			}
		}
	case "HasMode":
		if sel, ok := call.Fun.(*ast.SelectorExpr); ok && !neNil && len(call.Args) == 1 {
			if s2, ok := ast.Unparen(sel.X).(*ast.SelectorExpr); ok && s2.Sel.Name == "Filemode" && c.isFhdr(s2.X) {
				if m, ok := c.constNat(call.Args[0]); ok {
					return atom(".fileMode " + m), true
				}
			}
		}
	}
	return "", false
}

// maskTest: `(X & C) != 0` / `X & C != 0` / `== 0`
func (c *wgCtx) maskTest(b *ast.BinaryExpr) (string, bool) {
	if b.Op != token.NEQ && b.Op != token.EQL {
		return "", false
	}
	z, ok := c.constNat(b.Y)
	if !ok || z != "0" {
		return "", false
	}
	and, ok := ast.Unparen(b.X).(*ast.BinaryExpr)
	if !ok || and.Op != token.AND {
		return "", false
	}
	m, ok := c.constNat(and.Y)
	if !ok {
		return "", false
	}
	var a string
	if s, ok := ast.Unparen(and.X).(*ast.SelectorExpr); ok {
		switch {
		case s.Sel.Name == "BrdAttr" && c.brdOf(s.X) != "":
			a = atom(".brdAttr " + brdLean(c.brdOf(s.X)) + " " + m)
		case s.Sel.Name == "Filemode" && c.isFhdr(s.X):
			a = atom(".fileMode " + m)
		case s.Sel.Name == "UserLevel" && c.isUserLevel(s):
			a = atom(".userPerm " + m)
		}
	}
	if a == "" {
		return "", false
	}
	if b.Op == token.EQL {
		return "(.not " + a + ")", true
	}
	return a, true
}

// firstByteTest: X.Filename[0] == 'c', X.Owner[0] == 'c', filename[0] == 'c'
func (c *wgCtx) firstByteTest(b *ast.BinaryExpr) (string, bool) {
	if b.Op != token.EQL && b.Op != token.NEQ {
		return "", false
	}
	ix, ok := ast.Unparen(b.X).(*ast.IndexExpr)
	if !ok {
		return "", false
	}
	if i, ok := c.constNat(ix.Index); !ok || i != "0" {
		return "", false
	}
	ch, ok := c.constNat(b.Y)
	if !ok {
		return "", false
	}
	var a string
	if s, ok := ast.Unparen(ix.X).(*ast.SelectorExpr); ok && c.isFhdr(s.X) {
		switch s.Sel.Name {
		case "Filename":
			a = atom(".fhdrNameFirst " + ch)
		case "Owner":
			a = atom(".fhdrOwnerFirst " + ch)
		}
	} else if o := c.obj(ix.X); o != nil && c.params[o] == "filename" {
		a = atom(".argNameFirst " + ch)
	}
	if a == "" {
		return "", false
	}
	if b.Op == token.NEQ {
		return "(.not " + a + ")", true
	}
	return a, true
}

func (c *wgCtx) cond(e ast.Expr) string {
	e = ast.Unparen(e)
	switch x := e.(type) {
	case *ast.UnaryExpr:
		if x.Op == token.NOT {
			return "(.not " + c.cond(x.X) + ")"
		}
	case *ast.BinaryExpr:
		switch x.Op {
		case token.LAND:
			return "(.and " + c.cond(x.X) + " " + c.cond(x.Y) + ")"
		case token.LOR:
			return "(.or " + c.cond(x.X) + " " + c.cond(x.Y) + ")"
		case token.EQL, token.NEQ:
			if a, ok := c.maskTest(x); ok {
				return a
			}
			if a, ok := c.firstByteTest(x); ok {
				return a
			}
			neg := func(a string) string {
				if x.Op == token.EQL {
					return "(.not " + a + ")"
				}
				return a
			}
			pos := func(a string) string {
				if x.Op == token.NEQ {
					return "(.not " + a + ")"
				}
				return a
			}
			// … != nil / == nil
			if id, ok := ast.Unparen(x.Y).(*ast.Ident); ok && id.Name == "nil" {
				if call, ok := ast.Unparen(x.X).(*ast.CallExpr); ok {
					if a, ok := c.callAtom(call, true); ok {
						return neg(a)
					}
				}
				if o := c.obj(x.X); o != nil {
					if b, ok := c.bind[o]; ok && b.callee != "fhdr" {
						switch b.callee {
						case "CheckPostPerm2", "CheckModifyPerm", "postpermMsg":
							return neg(atom(".postPermErr " + brdLean(b.brd)))
						default:
							kind := ".other"
							switch b.callee {
							case "getFileHeader", "GetRecord":
								kind = ".index"
							case "Stat":
								kind = ".stat"
							}
							return neg(atom(".callFailed " + kind + " " + strconv.Quote(b.callee)))
						}
					}
				}
			}
			// statAttr == NBRD_INVALID, boardPermStat(...) == NBRD_INVALID
			if y, ok := c.constNat(x.Y); ok {
				isInvalid := false
				if tv := c.p.TypesInfo.Types[x.Y]; tv.Type != nil && strings.HasSuffix(tv.Type.String(), "BoardStatAttr") && y == "0" {
					isInvalid = true
				}
				isNone := false
				if tv := c.p.TypesInfo.Types[x.Y]; tv.Type != nil && strings.HasSuffix(tv.Type.String(), "RestrictReason") && y == "0" {
					isNone = true
				}
				var b wgBind
				found := false
				if call, ok := ast.Unparen(x.X).(*ast.CallExpr); ok {
					b = wgBind{wgCallee(call), c.brdOfCall(call)}
					found = true
				} else if o := c.obj(x.X); o != nil {
					b, found = c.bind[o]
				}
				if found {
					switch {
					case isInvalid && b.callee == "boardPermStat":
						return pos(atom(".readInvalid " + brdLean(b.brd)))
					case isNone && b.callee == "getBoardRestrictionReason":
						// reason != NONE is the refusing direction
						return neg(atom(".reasonNotNone " + brdLean(b.brd)))
					case b.callee == "GetBTotalWithRetry" && y == "0":
						return pos(atom(".totalZero"))
					}
				}
			}
		}
	case *ast.CallExpr:
		if a, ok := c.callAtom(x, false); ok {
			return a
		}
	case *ast.Ident:
		if o := c.obj(x); o != nil {
			if b, ok := c.bind[o]; ok && b.callee == "checkCooldown" {
				return atom(".cooldown " + brdLean(b.brd))
			}
		}
	case *ast.SelectorExpr:
		// a configuration switch: package-level bool variable of ptttype
		if o := c.p.TypesInfo.Uses[x.Sel]; o != nil {
			if v, ok := o.(*types.Var); ok && v.Pkg() != nil && v.Pkg().Name() == "ptttype" && types.Identical(v.Type(), types.Typ[types.Bool]) {
				val := wgCfgValue(c.p, v.Name())
				return atom(fmt.Sprintf(".cfg %q %v", v.Name(), val))
			}
		}
	}
	return c.opaque(e)
}

// wgCfgValue: the literal initialiser of a ptttype bool variable (default build tags).
func wgCfgValue(p *packages.Package, name string) bool {
	pt := p.Imports[modPath+"/ptttype"]
	if pt == nil {
		fatal("no ptttype import")
	}
	e := varInit(pt, name)
	tv, ok := pt.TypesInfo.Types[e]
	if !ok || tv.Value == nil || tv.Value.Kind() != constant.Bool {
		fatal("ptttype.%s has no constant bool initialiser", name)
	}
	return constant.BoolVal(tv.Value)
}

func andAll(path []string) string {
	if len(path) == 0 {
		return ".tt"
	}
	s := path[0]
	for _, p := range path[1:] {
		s = "(.and " + s + " " + p + ")"
	}
	return s
}

func (c *wgCtx) effectsIn(n ast.Node, path []string) {
	ast.Inspect(n, func(m ast.Node) bool {
		if _, ok := m.(*ast.FuncLit); ok {
			return false
		}
		call, ok := m.(*ast.CallExpr)
		if !ok {
			return true
		}
		name := wgCallee(call)
		persistent, ok := wgEffects[name]
		if !ok && strings.HasPrefix(name, "pwcu") {
			persistent, ok = true, true
		}
		if !ok && name == "LogFilef" && len(call.Args) > 0 {
			// a log line: under log/ it is not board, article or user state
			if tv, ok2 := c.p.TypesInfo.Types[call.Args[0]]; ok2 && tv.Value != nil && tv.Value.Kind() == constant.String &&
				strings.HasPrefix(constant.StringVal(tv.Value), "log/") {
				c.events = append(c.events, fmt.Sprintf(".effect %q false %s", "LogFilef:"+constant.StringVal(tv.Value), andAll(path)))
				return true
			}
			persistent, ok = true, true
		}
		if ok {
			c.events = append(c.events, fmt.Sprintf(".effect %q %v %s", name, persistent, andAll(path)))
		}
		return true
	})
}

func (c *wgCtx) assign(lhs []ast.Expr, rhs []ast.Expr) {
	if len(rhs) != 1 {
		return
	}
	call, ok := ast.Unparen(rhs[0]).(*ast.CallExpr)
	if !ok {
		return
	}
	name := wgCallee(call)
	brd := c.brdOfCall(call)
	for i, l := range lhs {
		o := c.obj(l)
		if o == nil {
			continue
		}
		if o.Name() == "err" || types.Identical(o.Type(), types.Universe.Lookup("error").Type()) {
			c.bind[o] = wgBind{name, brd}
			continue
		}
		switch name {
		case "GetBCache":
			if i == 0 {
				if brd == "" {
					fatal("%s: GetBCache of something that is neither the source nor the target bid (%s)", c.fn, c.pos(call))
				}
				c.boards[o] = brd
			}
		case "boardPermStat", "getBoardRestrictionReason", "checkCooldown", "GetBTotalWithRetry":
			if i == 0 {
				c.bind[o] = wgBind{name, brd}
			}
		case "getFileHeader", "GetRecord":
			if i == 1 {
				c.bind[o] = wgBind{"fhdr", brd}
			}
		}
	}
}

func (c *wgCtx) walk(stmts []ast.Stmt, path []string) {
	for _, s := range stmts {
		switch x := s.(type) {
		case *ast.AssignStmt:
			c.effectsIn(x, path)
			c.assign(x.Lhs, x.Rhs)
		case *ast.IfStmt:
			if x.Init != nil {
				c.walk([]ast.Stmt{x.Init}, path)
			}
			c.effectsIn(x.Cond, path)
			cd := c.cond(x.Cond)
			c.walk(x.Body.List, append(append([]string{}, path...), cd))
			if x.Else != nil {
				np := append(append([]string{}, path...), "(.not "+cd+")")
				switch e := x.Else.(type) {
				case *ast.BlockStmt:
					c.walk(e.List, np)
				default:
					c.walk([]ast.Stmt{e}, np)
				}
			}
		case *ast.ReturnStmt:
			if len(x.Results) == 0 {
				continue
			}
			last := ast.Unparen(x.Results[len(x.Results)-1])
			if id, ok := last.(*ast.Ident); ok && id.Name == "nil" {
				c.effectsIn(x, path)
				continue
			}
			if len(path) == 0 {
				// the unconditional tail (`return f(...)`): not a refusal
				c.effectsIn(x, path)
				continue
			}
			errName := types.ExprString(last)
			if o := c.obj(last); o != nil {
				if b, ok := c.bind[o]; ok {
					errName = "=" + b.callee
				}
			}
			if i := strings.LastIndex(errName, "."); i >= 0 {
				errName = errName[i+1:]
			}
			c.events = append(c.events, fmt.Sprintf(".guard %s %q", andAll(path), errName))
		case *ast.BlockStmt:
			c.walk(x.List, path)
		case *ast.ForStmt:
			c.effectsIn(x, append(append([]string{}, path...), atom(".opaque \"loop\"")))
		case *ast.RangeStmt:
			c.effectsIn(x, append(append([]string{}, path...), atom(".opaque \"loop\"")))
		case *ast.DeferStmt:
			c.effectsIn(x, path)
		default:
			c.effectsIn(s, path)
		}
	}
}

func wgFunc(p *packages.Package, name string) *ast.FuncDecl {
	for _, f := range p.Syntax {
		for _, d := range f.Decls {
			if fd, ok := d.(*ast.FuncDecl); ok && fd.Recv == nil && fd.Name.Name == name && fd.Body != nil {
				return fd
			}
		}
	}
	fatal("%s: no function %s", p.PkgPath, name)
	return nil
}

func wgEvents(p *packages.Package, fn string) []string {
	fd := wgFunc(p, fn)
	c := &wgCtx{p: p, fn: fn, params: map[types.Object]string{}, boards: map[types.Object]string{}, bind: map[types.Object]wgBind{}}
	for _, f := range fd.Type.Params.List {
		for _, n := range f.Names {
			o := p.TypesInfo.Defs[n]
			switch n.Name {
			case "boardID", "bid":
				c.params[o] = "src"
			case "xBoardID", "xBid":
				c.params[o] = "tgt"
			case "user":
				c.params[o] = "user"
			case "uid":
				c.params[o] = "uid"
			case "filename":
				c.params[o] = "filename"
			}
		}
	}
	nb := 0
	for _, v := range c.params {
		if v == "src" {
			nb++
		}
	}
	if nb != 2 {
		fatal("ptt.%s: expected the parameters boardID and bid", fn)
	}
	c.walk(fd.Body.List, nil)
	return c.events
}

// wgDelegates: NewPost must be a plain call of DoPostArticle with its own user/uid/boardID/bid.
func wgDelegates(p *packages.Package, from, to string) bool {
	fd := wgFunc(p, from)
	if len(fd.Body.List) != 1 {
		return false
	}
	r, ok := fd.Body.List[0].(*ast.ReturnStmt)
	if !ok || len(r.Results) != 1 {
		return false
	}
	call, ok := r.Results[0].(*ast.CallExpr)
	if !ok || wgCallee(call) != to || len(call.Args) < 4 {
		return false
	}
	for i, want := range []string{"user", "uid", "boardID", "bid"} {
		id, ok := call.Args[i].(*ast.Ident)
		if !ok || id.Name != want {
			return false
		}
	}
	return true
}

// wgMaskIn: the integer literal X in the first `… & X` / `… &= X` of a function.
func wgMaskIn(p *packages.Package, fn string) string {
	fd := wgFunc(p, fn)
	out := ""
	ast.Inspect(fd.Body, func(n ast.Node) bool {
		if out != "" {
			return false
		}
		switch x := n.(type) {
		case *ast.BinaryExpr:
			if x.Op == token.AND {
				if tv, ok := p.TypesInfo.Types[x.Y]; ok && tv.Value != nil {
					out = constant.ToInt(tv.Value).ExactString()
				}
			}
		case *ast.AssignStmt:
			if x.Tok == token.AND_ASSIGN && len(x.Rhs) == 1 {
				if tv, ok := p.TypesInfo.Types[x.Rhs[0]]; ok && tv.Value != nil {
					out = constant.ToInt(tv.Value).ExactString()
				}
			}
		}
		return true
	})
	if out == "" {
		fatal("%s.%s: no mask literal found", p.PkgPath, fn)
	}
	return out
}

func init() {
	register("WriteGuards", func(l *loader, repo, out string) {
		p := l.load("ptt")
		pt := p.Imports[modPath+"/ptttype"]
		pc := p.Imports[modPath+"/cache"]
		if pt == nil || pc == nil {
			fatal("ptt does not import ptttype / cache")
		}
		lf := newLean("WriteGuards", "PttVerif.Model.C08Guard")
		lf.raw("open PttVerif.C08\n\n")

		lf.raw("/-! permission, board-attribute and file-mode bits the guards and the hand-written decisions mention -/\n")
		for _, n := range []string{"PERM_BASIC", "PERM_POST", "PERM_LOGINOK", "PERM_BM", "PERM_SYSOP", "PERM_VIOLATELAW", "PERM_POLICE_MAN", "PERM_POLICE"} {
			lf.nat(n, constBig(pt, n))
		}
		for _, n := range []string{"BRD_HIDE", "BRD_POSTMASK", "BRD_VOTEBOARD", "BRD_NORECOMMEND", "BRD_RESTRICTEDPOST", "BRD_GUESTPOST",
			"BRD_COOLDOWN", "BRD_CPLOG", "BRD_OVER18"} {
			lf.nat(n, constBig(pt, n))
		}
		for _, n := range []string{"FILE_MARKED", "FILE_SOLVED", "FILE_VOTE"} {
			lf.nat(n, constBig(pt, n))
		}
		lf.raw("\n/-! reserved board names (bytes) -/\n")
		strInit := func(name string) string {
			e := varInit(pt, name)
			tv, ok := pt.TypesInfo.Types[e]
			if !ok || tv.Value == nil || tv.Value.Kind() != constant.String {
				fatal("ptttype.%s: no string initialiser", name)
			}
			return constant.StringVal(tv.Value)
		}
		lf.natList("bnSecurity", bytesOf(strInit("BN_SECURITY_s")))
		lf.natList("bnAllpost", bytesOf(strInit("BN_ALLPOST_s")))
		// DEFAULT_BOARD = STR_SYSOP = []byte("SYSOP")
		def := varInit(pt, "DEFAULT_BOARD")
		if id, ok := def.(*ast.Ident); ok {
			def = varInit(pt, id.Name)
		}
		fl, _ := litInts(pt, def)
		lf.natList("defaultBoard", fl)

		lf.raw("/-! configuration switches (default build) read by the hand-modelled decisions -/\n")
		for _, n := range []string{"USE_NEW_BAN_SYSTEM", "REJECT_FLOOD_POST", "USE_COOLDOWN"} {
			lf.raw(fmt.Sprintf("def %s : Bool := %v\n", n, wgCfgValue(p, n)))
		}

		lf.raw("\n/-! checkCooldown: the `limit` table (pairs: board users above, post times at least) and the masks -/\n")
		fd := wgFunc(p, "checkCooldown")
		var lim []string
		ast.Inspect(fd.Body, func(n ast.Node) bool {
			as, ok := n.(*ast.AssignStmt)
			if !ok || len(as.Lhs) != 1 || len(as.Rhs) != 1 {
				return true
			}
			if id, ok := as.Lhs[0].(*ast.Ident); ok && id.Name == "limit" {
				if cl, ok := as.Rhs[0].(*ast.CompositeLit); ok {
					for _, e := range cl.Elts {
						tv := p.TypesInfo.Types[e]
						if tv.Value == nil {
							fatal("checkCooldown: non-constant limit entry")
						}
						v, _ := constant.Int64Val(constant.ToInt(tv.Value))
						if v < 0 {
							lim = append(lim, fmt.Sprintf("(%d)", v))
						} else {
							lim = append(lim, fmt.Sprint(v))
						}
					}
				}
			}
			return true
		})
		if len(lim) == 0 || len(lim)%2 != 0 {
			fatal("checkCooldown: limit table not found")
		}
		lf.raw("def cooldownLimit : List Int := [" + strings.Join(lim, ", ") + "]\n")
		lf.nat("checkCooldownMask", wgMaskIn(p, "checkCooldown"))
		lf.nat("cooldownTimeMask", wgMaskIn(pc, "CooldownTimeOf"))
		lf.nat("posttimesMask", wgMaskIn(pc, "PosttimesOf"))

		// ---- the friend list of a board (cache.HbflReload / IsHiddenBoardFriend) ----
		lf.raw("\n/-! the board friend list in shared memory: capacity, expiry (seconds), and whether HbflReload builds the new\n" +
			"   list in a zeroed local array that it copies over the WHOLE shared-memory row (so nothing of the old list survives) -/\n")
		lf.nat("MAX_FRIEND", constInt(pt, "MAX_FRIEND"))
		{
			e := varInit(pt, "HBFLexpire")
			tv, ok := pt.TypesInfo.Types[e]
			if !ok || tv.Value == nil {
				fatal("ptttype.HBFLexpire: no constant initialiser")
			}
			lf.nat("HBFLexpire", constant.ToInt(tv.Value).ExactString())
		}
		lf.raw(fmt.Sprintf("def hbflReloadReplacesRow : Bool := %v\n", wgHbflReplaces(pc)))
		lf.raw("/-- HbflReload returns right after a failed os.Open of the list file (the row is then left as it was) -/\n")
		lf.raw(fmt.Sprintf("def hbflMissingFileKeepsRow : Bool := %v\n", wgHbflOpenFailureReturns(pc)))
		lf.raw("\n/-- ptt.isBannedBy removes the ban record also when it could not be read (`err != nil || now > expireTS`);\n" +
			"false: only a record that was read and has expired is removed (`err == nil && now > expireTS`) -/\n")
		lf.raw(fmt.Sprintf("def banCleanupOnReadError : Bool := %v\n", wgBanCleanupOnError(p)))
		lf.raw("\n/-- ptt.NewPost hands its own user, uid, boardID and bid to DoPostArticle and does nothing else. -/\n")
		lf.raw(fmt.Sprintf("def newPostDelegates : Bool := %v\n", wgDelegates(p, "NewPost", "DoPostArticle")))
		lf.raw(fmt.Sprintf("def checkPostPerm2IsPostpermMsg : Bool := %v\n",
			wgDelegatesAny(p, "CheckPostPerm2", "CheckModifyPerm") && wgDelegatesAny(p, "CheckModifyPerm", "postpermMsg")))

		for _, f := range []struct{ def, fn string }{{"newpost", "DoPostArticle"}, {"recommend", "Recommend"}, {"editpost", "EditPost"}, {"crosspost", "CrossPost"}} {
			ev := wgEvents(p, f.fn)
			lf.raw(fmt.Sprintf("\n/-- ptt.%s: refusals and side-effecting calls in source order. -/\n", f.fn))
			lf.raw(fmt.Sprintf("def %s : List Event := [\n  %s]\n", f.def, strings.Join(ev, ",\n  ")))
		}
		lf.write(out)
	})
}

// wgDelegatesAny: `from` consists of `return to(args…)`.
func wgDelegatesAny(p *packages.Package, from, to string) bool {
	fd := wgFunc(p, from)
	if len(fd.Body.List) != 1 {
		return false
	}
	r, ok := fd.Body.List[0].(*ast.ReturnStmt)
	if !ok || len(r.Results) != 1 {
		return false
	}
	call, ok := r.Results[0].(*ast.CallExpr)
	return ok && wgCallee(call) == to
}

// wgHbflReplaces: cache.HbflReload declares a local `x := [N]T{}` (array type, no elements) and ends by
// `copy(Shm.Shm.Hbfl[…][:], x[:])`, and never writes Shm.Shm.Hbfl[…] in any other way.
func wgHbflReplaces(pc *packages.Package) bool {
	fd := wgFunc(pc, "HbflReload")
	var local types.Object
	copies, otherWrites := 0, 0
	isHbflRow := func(e ast.Expr) bool {
		// Shm.Shm.Hbfl[i] possibly sliced / indexed further
		found := false
		ast.Inspect(e, func(n ast.Node) bool {
			if s, ok := n.(*ast.SelectorExpr); ok && s.Sel.Name == "Hbfl" {
				found = true
			}
			return true
		})
		return found
	}
	ast.Inspect(fd.Body, func(n ast.Node) bool {
		switch x := n.(type) {
		case *ast.AssignStmt:
			for i, l := range x.Lhs {
				if isHbflRow(l) {
					otherWrites++
				}
				if x.Tok == token.DEFINE && i < len(x.Rhs) {
					if cl, ok := ast.Unparen(x.Rhs[i]).(*ast.CompositeLit); ok && len(cl.Elts) == 0 {
						if t := pc.TypesInfo.TypeOf(cl); t != nil {
							if _, ok := t.Underlying().(*types.Array); ok {
								if id, ok := l.(*ast.Ident); ok {
									local = pc.TypesInfo.Defs[id]
								}
							}
						}
					}
					// an alias of the shared row (`x := &Shm.Shm.Hbfl[i]`) makes every later x[k] = … a write to it
					if isHbflRow(x.Rhs[i]) {
						otherWrites++
					}
				}
			}
		case *ast.CallExpr:
			if id, ok := x.Fun.(*ast.Ident); ok && id.Name == "copy" && len(x.Args) == 2 && isHbflRow(x.Args[0]) {
				if sl, ok := ast.Unparen(x.Args[1]).(*ast.SliceExpr); ok && sl.Low == nil && sl.High == nil {
					if id2, ok := ast.Unparen(sl.X).(*ast.Ident); ok && local != nil && pc.TypesInfo.Uses[id2] == local {
						if dsl, ok := ast.Unparen(x.Args[0]).(*ast.SliceExpr); ok && dsl.Low == nil && dsl.High == nil {
							copies++
						}
					}
				}
			}
		}
		return true
	})
	return local != nil && copies == 1 && otherWrites == 0
}

// wgHbflOpenFailureReturns: in cache.HbflReload the statement after `…, err := os.Open(…)` is
// `if err != nil { …return }`.
func wgHbflOpenFailureReturns(pc *packages.Package) bool {
	fd := wgFunc(pc, "HbflReload")
	for i, st := range fd.Body.List {
		as, ok := st.(*ast.AssignStmt)
		if !ok || len(as.Rhs) != 1 {
			continue
		}
		call, ok := as.Rhs[0].(*ast.CallExpr)
		if !ok || wgCallee(call) != "Open" || i+1 >= len(fd.Body.List) {
			continue
		}
		is, ok := fd.Body.List[i+1].(*ast.IfStmt)
		if !ok {
			return false
		}
		b, ok := ast.Unparen(is.Cond).(*ast.BinaryExpr)
		if !ok || b.Op != token.NEQ || types.ExprString(b.X) != "err" || types.ExprString(b.Y) != "nil" {
			return false
		}
		for _, s2 := range is.Body.List {
			if _, ok := s2.(*ast.ReturnStmt); ok {
				return true
			}
		}
		return false
	}
	fatal("cache.HbflReload: no os.Open of the list file found")
	return false
}

// wgBanCleanupOnError: the condition of the `if` in ptt.isBannedBy whose body calls os.Remove.
//
//	err == nil && now > expireTS  -> false;   anything that lets a read error through (err != nil || …) -> true.
func wgBanCleanupOnError(p *packages.Package) bool {
	fd := wgFunc(p, "isBannedBy")
	result, found := false, false
	ast.Inspect(fd.Body, func(n ast.Node) bool {
		is, ok := n.(*ast.IfStmt)
		if !ok {
			return true
		}
		removes := false
		ast.Inspect(is.Body, func(m ast.Node) bool {
			if c, ok := m.(*ast.CallExpr); ok && wgCallee(c) == "Remove" {
				removes = true
			}
			return true
		})
		if !removes {
			return true
		}
		found = true
		// the clean-up is restricted to readable records iff the condition is a conjunction with `err == nil`
		guarded := false
		var conj func(e ast.Expr)
		conj = func(e ast.Expr) {
			e = ast.Unparen(e)
			if b, ok := e.(*ast.BinaryExpr); ok {
				if b.Op == token.LAND {
					conj(b.X)
					conj(b.Y)
					return
				}
				if b.Op == token.EQL && types.ExprString(b.X) == "err" && types.ExprString(b.Y) == "nil" {
					guarded = true
				}
			}
		}
		conj(is.Cond)
		result = !guarded
		return false
	})
	if !found {
		// no clean-up at all: nothing is removed on a read error
		return false
	}
	return result
}
