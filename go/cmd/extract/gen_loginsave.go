package main

// Gen/LoginSave.lean (C02, login histories): which record the pwcu* setters of package ptt write back.
//
// Every pwcu* setter ends in `pwcuEnd(uid, X)`, a write of the WHOLE 512-byte record X — password hash included.
// What X is decides whether a setter can undo a password change that completed after the caller loaded its copy:
//
//	"reread"  X is a local variable whose only assignments are `X, err = pwcuStart(...)` / `X, err := pwcuStart(...)`
//	          (a fresh read of the record inside the setter)
//	"caller"  X is a parameter of the setter, or a local variable assigned from one (the record the caller loaded
//	          earlier, e.g. the one LoginQuery checked the password against)
//	"unknown:<why>"  anything else
//
// Also: the statements of ptt.Login in order (as call names), so that the model's two halves
// (LoginQuery … userLogin) are tied to the source.

import (
	"fmt"
	"go/ast"
	"go/token"
	"go/types"
	"sort"
	"strings"

	"golang.org/x/tools/go/packages"
)

func lsCallName(e ast.Expr) string {
	c, ok := ast.Unparen(e).(*ast.CallExpr)
	if !ok {
		return ""
	}
	switch f := ast.Unparen(c.Fun).(type) {
	case *ast.Ident:
		return f.Name
	case *ast.SelectorExpr:
		if x, ok := f.X.(*ast.Ident); ok {
			return x.Name + "." + f.Sel.Name
		}
	}
	return ""
}

// lsClassify: where does the object `obj` (the second argument of pwcuEnd) get its value inside fd?
func lsClassify(p *packages.Package, fd *ast.FuncDecl, obj types.Object) string {
	params := map[types.Object]bool{}
	if fd.Type.Params != nil {
		for _, f := range fd.Type.Params.List {
			for _, n := range f.Names {
				params[p.TypesInfo.Defs[n]] = true
			}
		}
	}
	if params[obj] {
		return "caller"
	}
	verdict := ""
	set := func(v string) {
		if verdict == "" || verdict == v {
			verdict = v
		} else if !strings.HasPrefix(verdict, "unknown") {
			verdict = "unknown:assigned from several sources"
		}
	}
	ast.Inspect(fd.Body, func(n ast.Node) bool {
		switch s := n.(type) {
		case *ast.AssignStmt:
			for i, lhs := range s.Lhs {
				id, ok := ast.Unparen(lhs).(*ast.Ident)
				if !ok {
					continue
				}
				o := p.TypesInfo.Defs[id]
				if o == nil {
					o = p.TypesInfo.Uses[id]
				}
				if o != obj {
					continue
				}
				// X, err = f(...)   (one call on the right)   or   X = e
				var rhs ast.Expr
				if len(s.Rhs) == 1 {
					rhs = s.Rhs[0]
				} else if i < len(s.Rhs) {
					rhs = s.Rhs[i]
				}
				switch {
				case rhs != nil && lsCallName(rhs) == "pwcuStart" && i == 0:
					set("reread")
				case rhs != nil:
					if rid, ok := ast.Unparen(rhs).(*ast.Ident); ok && params[p.TypesInfo.Uses[rid]] {
						set("caller")
					} else {
						set("unknown:assigned from " + types.ExprString(rhs))
					}
				default:
					set("unknown:assignment shape")
				}
			}
		case *ast.UnaryExpr:
			if s.Op == token.AND {
				if id, ok := ast.Unparen(s.X).(*ast.Ident); ok && p.TypesInfo.Uses[id] == obj {
					set("unknown:address taken")
				}
			}
		case *ast.ValueSpec:
			for i, n := range s.Names {
				if p.TypesInfo.Defs[n] == obj && i < len(s.Values) {
					if rid, ok := ast.Unparen(s.Values[i]).(*ast.Ident); ok && params[p.TypesInfo.Uses[rid]] {
						set("caller")
					} else {
						set("unknown:initialised from " + types.ExprString(s.Values[i]))
					}
				}
			}
		}
		return true
	})
	if verdict == "" {
		return "unknown:never assigned"
	}
	return verdict
}

func init() {
	register("LoginSave", func(l *loader, repo, out string) {
		p := l.load("ptt")
		lf := newLean("LoginSave")
		rows := map[string]string{}
		for _, f := range p.Syntax {
			if strings.HasSuffix(p.Fset.Position(f.Pos()).Filename, "_test.go") {
				continue
			}
			for _, d := range f.Decls {
				fd, ok := d.(*ast.FuncDecl)
				if !ok || fd.Body == nil || fd.Recv != nil || fd.Name.Name == "pwcuEnd" {
					continue
				}
				ast.Inspect(fd.Body, func(n ast.Node) bool {
					c, ok := n.(*ast.CallExpr)
					if !ok || lsCallName(c) != "pwcuEnd" || len(c.Args) != 2 {
						return true
					}
					v := ""
					if id, ok := ast.Unparen(c.Args[1]).(*ast.Ident); ok {
						v = lsClassify(p, fd, p.TypesInfo.Uses[id])
					} else {
						v = "unknown:argument " + types.ExprString(c.Args[1])
					}
					if old, ok := rows[fd.Name.Name]; ok && old != v {
						v = "unknown:several write-backs (" + old + " / " + v + ")"
					}
					rows[fd.Name.Name] = v
					return true
				})
			}
		}
		names := make([]string, 0, len(rows))
		for k := range rows {
			names = append(names, k)
		}
		sort.Strings(names)
		lf.raw("/- package ptt: every function that calls pwcuEnd(uid, X) (a write of the WHOLE record X), and where X comes from:\n   \"reread\" (X, err = pwcuStart(...) inside the function), \"caller\" (a parameter / a copy of one), \"unknown:<why>\" -/\n")
		var items []string
		for _, n := range names {
			items = append(items, fmt.Sprintf("(%q, %q)", n, rows[n]))
		}
		lf.raw("def writeBackSources : List (String × String) := [" + strings.Join(items, ", ") + "]\n\n")
		src := rows["pwcuLoginSave"]
		if src == "" {
			src = "unknown:pwcuLoginSave does not call pwcuEnd"
		}
		lf.raw("/- ptt.pwcuLoginSave (the write-back of a login's statistics) -/\n")
		lf.raw(fmt.Sprintf("def loginSaveSource : String := %q\n", src))
		lf.raw(fmt.Sprintf("def loginSaveRereads : Bool := %v\n\n", src == "reread"))

		// ptt.Login: the calls of its top-level statements, in order
		var calls []string
		for _, f := range p.Syntax {
			for _, d := range f.Decls {
				fd, ok := d.(*ast.FuncDecl)
				if !ok || fd.Body == nil || fd.Recv != nil || fd.Name.Name != "Login" {
					continue
				}
				for _, st := range fd.Body.List {
					switch s := st.(type) {
					case *ast.AssignStmt:
						if len(s.Rhs) == 1 {
							if n := lsCallName(s.Rhs[0]); n != "" {
								calls = append(calls, n)
							}
						}
					case *ast.ExprStmt:
						if n := lsCallName(s.X); n != "" && !strings.HasPrefix(n, "verifhook.") && !strings.HasPrefix(n, "log.") {
							calls = append(calls, n)
						}
					}
				}
			}
		}
		var cs []string
		for _, c := range calls {
			cs = append(cs, fmt.Sprintf("%q", c))
		}
		lf.raw("/- ptt.Login: the calls of its top-level statements, in order (schedule points and logging left out) -/\n")
		lf.raw("def loginCalls : List String := [" + strings.Join(cs, ", ") + "]\n")
		lf.write(out)
	})
}
