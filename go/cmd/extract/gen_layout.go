package main

// Gen/LayoutDefault.lean, Gen/LayoutDocker.lean (property C01): for every record
// type that is written to disk or overlaid on shared memory
//   * the field tree (names, primitive size/alignment, array lengths) as a value
//     of PttVerif.C01.Ty, read from the source with go/types under the build tags
//     of the configuration,
//   * what go/types' gc/amd64 Sizes reports (Sizeof / Alignof / Offsetsof): a
//     second opinion on the alignment rule that Model/C01.lean implements,
//   * the *_SZ constants and the configuration constants as the type checker
//     evaluates them,
//   * for each partial-update function the record-size constants it multiplies
//     by and the argument of every unsafe.Offsetof, read syntactically from the
//     function body.
import (
	"fmt"
	"go/ast"
	"go/constant"
	"go/token"
	"go/types"
	"os"
	"strings"

	"golang.org/x/tools/go/packages"
)

func init() {
	register("LayoutDefault", func(l *loader, repo, out string) { genLayout(l, "LayoutDefault", out) })
	register("LayoutDocker", func(l *loader, repo, out string) {
		genLayout(newLoader(repo, "docker"), "LayoutDocker", out)
	})
}

type layoutGen struct {
	sizes   types.Sizes
	defs    []string          // emitted `def t<Name> : Ty := ...` in dependency order
	defined map[string]string // type key -> Lean def name
	names   []string          // type names in emission order
	named   map[string]*types.Named
}

func leanIdent(s string) string {
	return "t" + strings.ToUpper(s[:1]) + s[1:]
}

// ty renders a Go type as a Lean Ty expression. Named struct types become
// references to their own definition (emitted first).
func (g *layoutGen) ty(t types.Type, where string) string {
	if n, ok := t.(*types.Named); ok {
		if _, isStruct := n.Underlying().(*types.Struct); isStruct {
			return g.structDef(n)
		}
	}
	switch u := t.Underlying().(type) {
	case *types.Basic:
		var sz int64
		switch u.Kind() {
		case types.Bool, types.Int8, types.Uint8:
			sz = 1
		case types.Int16, types.Uint16:
			sz = 2
		case types.Int32, types.Uint32, types.Float32:
			sz = 4
		case types.Int64, types.Uint64, types.Float64:
			sz = 8
		default:
			// int, uint, uintptr, string, ...: not a fixed-width wire type (encoding/binary rejects them)
			fatal("layout: %s: field type %s has no fixed serialised width", where, t)
		}
		return fmt.Sprintf(".prim %d %d", sz, sz)
	case *types.Array:
		return fmt.Sprintf(".arr %d (%s)", u.Len(), g.ty(u.Elem(), where))
	case *types.Struct:
		return g.structLit(u, where)
	}
	fatal("layout: %s: unsupported field type %s", where, t)
	return ""
}

func (g *layoutGen) structLit(s *types.Struct, where string) string {
	var b strings.Builder
	b.WriteString(".struct [")
	for i := 0; i < s.NumFields(); i++ {
		f := s.Field(i)
		if i > 0 {
			b.WriteString(",")
		}
		fmt.Fprintf(&b, "\n  (%q, %s)", f.Name(), g.ty(f.Type(), where+"."+f.Name()))
	}
	b.WriteString("]")
	return b.String()
}

func (g *layoutGen) structDef(n *types.Named) string {
	key := n.Obj().Pkg().Path() + "." + n.Obj().Name()
	if d, ok := g.defined[key]; ok {
		return d
	}
	name := n.Obj().Name()
	id := leanIdent(name)
	for _, other := range g.names {
		if other == name {
			fatal("layout: two record types are called %s", name)
		}
	}
	body := g.structLit(n.Underlying().(*types.Struct), name)
	g.defined[key] = id
	g.names = append(g.names, name)
	g.named[name] = n
	g.defs = append(g.defs, fmt.Sprintf("def %s : Ty := %s\n", id, body))
	return id
}

func namedType(p *packages.Package, name string) *types.Named {
	tn, ok := lookup(p, name).(*types.TypeName)
	if !ok {
		fatal("%s.%s is not a type", p.PkgPath, name)
	}
	n, ok := tn.Type().(*types.Named)
	if !ok {
		fatal("%s.%s is not a named type", p.PkgPath, name)
	}
	return n
}

// hasConst: configuration constants differ between packages/configurations; a missing one is an error.
func optConst(p *packages.Package, name string) (string, bool) {
	o := p.Types.Scope().Lookup(name)
	c, ok := o.(*types.Const)
	if !ok {
		return "", false
	}
	v := constant.ToInt(c.Val())
	if v.Kind() != constant.Int {
		return "", false
	}
	return v.ExactString(), true
}

// updateFacts reads one function body: the *_SZ constants it refers to and the
// (record type, field, value) of every unsafe.Offsetof call, in source order.
func updateFacts(p *packages.Package, fn string) (strides []string, offs [][3]string, found bool) {
	for _, f := range p.Syntax {
		for _, d := range f.Decls {
			fd, ok := d.(*ast.FuncDecl)
			if !ok || fd.Recv != nil || fd.Name.Name != fn || fd.Body == nil {
				continue
			}
			found = true
			seen := map[string]bool{}
			ast.Inspect(fd.Body, func(n ast.Node) bool {
				switch x := n.(type) {
				case *ast.CallExpr:
					if sel, ok := x.Fun.(*ast.SelectorExpr); ok && sel.Sel.Name == "Offsetof" {
						if id, ok := sel.X.(*ast.Ident); ok {
							if pn, ok := p.TypesInfo.Uses[id].(*types.PkgName); ok && pn.Imported().Path() == "unsafe" && len(x.Args) == 1 {
								arg, ok := ast.Unparen(x.Args[0]).(*ast.SelectorExpr)
								if !ok {
									fatal("%s.%s: Offsetof argument is not a field selector", p.PkgPath, fn)
								}
								rt := p.TypesInfo.TypeOf(arg.X)
								if pt, ok := rt.(*types.Pointer); ok {
									rt = pt.Elem()
								}
								tn := "?"
								if nt, ok := rt.(*types.Named); ok {
									tn = nt.Obj().Name()
								}
								val := "0"
								if tv, ok := p.TypesInfo.Types[x]; ok && tv.Value != nil {
									val = constant.ToInt(tv.Value).ExactString()
								}
								offs = append(offs, [3]string{tn, arg.Sel.Name, val})
								return false
							}
						}
					}
				case *ast.Ident:
					if c, ok := p.TypesInfo.Uses[x].(*types.Const); ok && strings.HasSuffix(c.Name(), "_SZ") && !seen[c.Name()] {
						seen[c.Name()] = true
						strides = append(strides, c.Name())
					}
				}
				return true
			})
		}
	}
	return
}

// preload loads several packages of the module with one packages.Load (one
// type-check of the shared dependencies instead of one per package) and puts
// them into the loader's cache.
func (l *loader) preload(rels ...string) {
	var pats []string
	for _, r := range rels {
		if _, ok := l.pkgs[r]; !ok {
			pats = append(pats, modPath+"/"+r)
		}
	}
	if len(pats) == 0 {
		return
	}
	cfg := &packages.Config{
		Mode: packages.NeedName | packages.NeedFiles | packages.NeedSyntax | packages.NeedTypes |
			packages.NeedTypesInfo | packages.NeedImports | packages.NeedDeps | packages.NeedTypesSizes,
		Dir: l.repo,
		Env: append(os.Environ(), "GOFLAGS=-mod=mod", "GOPROXY=off", "GOSUMDB=off", "GOTOOLCHAIN=local"),
	}
	if l.tags != "" {
		cfg.BuildFlags = []string{"-tags=" + l.tags}
	}
	ps, err := packages.Load(cfg, pats...)
	if err != nil {
		fatal("load %v: %v", pats, err)
	}
	for _, p := range ps {
		if len(p.Errors) > 0 {
			fatal("load %s: %v", p.PkgPath, p.Errors)
		}
		l.pkgs[strings.TrimPrefix(p.PkgPath, modPath+"/")] = p
	}
}

// offsetConsts lists the package-level constants whose initialiser is a call
// unsafe.Offsetof(X.Field): name, record type of X, field, evaluated value.
func offsetConsts(p *packages.Package) (out [][4]string) {
	for _, f := range p.Syntax {
		for _, d := range f.Decls {
			gd, ok := d.(*ast.GenDecl)
			if !ok || gd.Tok != token.CONST {
				continue
			}
			for _, sp := range gd.Specs {
				vs := sp.(*ast.ValueSpec)
				for i, n := range vs.Names {
					if i >= len(vs.Values) {
						continue
					}
					call, ok := ast.Unparen(vs.Values[i]).(*ast.CallExpr)
					if !ok || len(call.Args) != 1 {
						continue
					}
					sel, ok := call.Fun.(*ast.SelectorExpr)
					if !ok || sel.Sel.Name != "Offsetof" {
						continue
					}
					id, ok := sel.X.(*ast.Ident)
					if !ok {
						continue
					}
					if pn, ok := p.TypesInfo.Uses[id].(*types.PkgName); !ok || pn.Imported().Path() != "unsafe" {
						continue
					}
					arg, ok := ast.Unparen(call.Args[0]).(*ast.SelectorExpr)
					if !ok {
						continue
					}
					tn := "?"
					if nt, ok := p.TypesInfo.TypeOf(arg.X).(*types.Named); ok {
						tn = nt.Obj().Name()
					}
					c, ok := p.TypesInfo.Defs[n].(*types.Const)
					if !ok {
						continue
					}
					out = append(out, [4]string{n.Name, tn, arg.Sel.Name, constant.ToInt(c.Val()).ExactString()})
				}
			}
		}
	}
	return
}

func genLayout(l *loader, name, out string) {
	l.preload("ptttype", "ptt", "ptt/fav", "cache", "cmbbs", "types")
	pt := l.load("ptttype")
	pp := l.load("ptt")
	pf := l.load("ptt/fav")
	pc := l.load("cache")
	pm := l.load("cmbbs")
	ptypes := l.load("types")

	g := &layoutGen{sizes: types.SizesFor("gc", "amd64"), defined: map[string]string{}, named: map[string]*types.Named{}}
	roots := []struct {
		p *packages.Package
		n string
	}{
		{pt, "UserecRaw"}, {pt, "Userec2Raw"}, {pt, "BoardHeaderRaw"}, {pt, "FileHeaderRaw"}, {pp, "PostLog"},
		{pf, "FavBoard"}, {pf, "FavLine"}, {pf, "Fav4Board"},
		{pt, "MsgQueueRaw"}, {pt, "UserInfoRaw"}, {pc, "shmGV2"}, {pc, "SHMRaw"},
	}
	for _, r := range roots {
		g.structDef(namedType(r.p, r.n))
	}

	lf := newLean(name, "PttVerif.Model.C01")
	lf.raw("open PttVerif.C01\n\n")
	lf.raw("/-! field trees (go/types, build tags of this configuration) -/\n\n")
	for _, d := range g.defs {
		lf.raw(d + "\n")
	}
	lf.raw("def types : List (String × Ty) := [")
	for i, n := range g.names {
		if i > 0 {
			lf.raw(",")
		}
		lf.raw(fmt.Sprintf("\n  (%q, %s)", n, leanIdent(n)))
	}
	lf.raw("]\n\n")

	lf.raw("/-! go/types gc/amd64: (type, Sizeof, Alignof, Offsetsof of the top-level fields) -/\n\n")
	lf.raw("def compiler : List (String × Nat × Nat × List Nat) := [")
	for i, n := range g.names {
		nt := g.named[n]
		st := nt.Underlying().(*types.Struct)
		fields := make([]*types.Var, st.NumFields())
		for k := range fields {
			fields[k] = st.Field(k)
		}
		offs := g.sizes.Offsetsof(fields)
		parts := make([]string, len(offs))
		for k, o := range offs {
			parts[k] = fmt.Sprint(o)
		}
		if i > 0 {
			lf.raw(",")
		}
		lf.raw(fmt.Sprintf("\n  (%q, %d, %d, [%s])", n, g.sizes.Sizeof(nt), g.sizes.Alignof(nt), strings.Join(parts, ", ")))
	}
	lf.raw("]\n\n")

	lf.raw("/-! constants as evaluated by the type checker -/\n\n")
	lf.raw("def consts : List (String × Nat) := [")
	first := true
	emit := func(p *packages.Package, names ...string) {
		for _, n := range names {
			v, ok := optConst(p, n)
			if !ok {
				fatal("layout: %s.%s is not an integer constant", p.PkgPath, n)
			}
			if strings.HasPrefix(v, "-") {
				fatal("layout: %s.%s is negative", p.PkgPath, n)
			}
			if !first {
				lf.raw(",")
			}
			first = false
			lf.raw(fmt.Sprintf("\n  (%q, %s)", n, v))
		}
	}
	emit(pt, "USEREC_RAW_SZ", "USEREC2_RAW_SZ", "DEFAULT_USEREC2_RAW_SZ", "BOARD_HEADER_RAW_SZ", "FILE_HEADER_RAW_SZ",
		"USER_INFO_RAW_SZ", "MSG_QUEUE_RAW_SZ")
	emit(pp, "POSTLOG_SZ")
	emit(pf, "SIZE_OF_FAV_BOARD", "SIZE_OF_FAV_LINE", "SIZE_OF_FAV4_BOARD")
	emit(pc, "SHM_RAW_SZ", "DUMMY_SHMGV2")
	emit(ptypes, "INT32_SZ", "TIME4_SZ")
	emit(pt, "MAX_USERS", "MAX_ACTIVE", "USHM_SIZE", "MAX_BOARD", "HASH_BITS", "MAX_FRIEND", "MAX_REJECT", "MAX_MSGS",
		"MAX_ADBANNER", "MAX_ADBANNER_SECTION", "MAX_ADBANNER_HEIGHT", "HOTBOARDCACHE", "MAX_FROM", "MAX_BMs",
		"SORT_BY_MAX", "BSORT_BY_MAX", "TODAYISSZ", "STAT_MAX", "IDLEN", "BTLEN", "TTLEN")
	lf.raw("]\n\n")
	lf.raw("/-! the site constants once more, as individual definitions (no table lookup in the theorems) -/\n\n")
	for _, n := range []string{"MAX_USERS", "MAX_ACTIVE", "MAX_BOARD", "HASH_BITS", "MAX_FRIEND", "MAX_REJECT", "MAX_MSGS",
		"MAX_ADBANNER", "MAX_ADBANNER_SECTION", "MAX_ADBANNER_HEIGHT", "HOTBOARDCACHE", "MAX_FROM"} {
		v, _ := optConst(pt, n)
		lf.raw(fmt.Sprintf("def k_%s : Nat := %s\n", n, v))
	}
	lf.raw("\n")

	lf.raw("/-! package-level constants defined as unsafe.Offsetof(<var>.<Field>): (constant, record type, field, value) -/\n\n")
	lf.raw("def offsetConsts : List (String × String × String × Nat) := [")
	firstOC := true
	for _, p := range []*packages.Package{pt, pc} {
		for _, oc := range offsetConsts(p) {
			if !firstOC {
				lf.raw(",")
			}
			firstOC = false
			lf.raw(fmt.Sprintf("\n  (%q, %q, %q, %s)", oc[0], oc[1], oc[2], oc[3]))
		}
	}
	lf.raw("]\n\n")

	lf.raw("/-! partial updates: (function, *_SZ constants referred to, unsafe.Offsetof arguments (type, field, value)) -/\n\n")
	lf.raw("def updates : List (String × List String × List (String × String × Nat)) := [")
	fns := []struct {
		p  *packages.Package
		q  string
		fn string
	}{
		{pm, "cmbbs", "PasswdQuery"}, {pm, "cmbbs", "PasswdUpdate"},
		{pm, "cmbbs", "PasswdQueryPasswd"}, {pm, "cmbbs", "PasswdQueryUserLevel"},
		{pm, "cmbbs", "PasswdUpdatePasswd"}, {pm, "cmbbs", "PasswdUpdateEmail"},
		{pm, "cmbbs", "PasswdGetUserLevel2"}, {pm, "cmbbs", "PasswdUpdateUserLevel2"},
		{pc, "cache", "passwdUpdateMoney"},
	}
	for i, f := range fns {
		strides, offs, found := updateFacts(f.p, f.fn)
		if !found {
			fatal("layout: function %s.%s not found", f.q, f.fn)
		}
		ss := make([]string, len(strides))
		for k, s := range strides {
			ss[k] = fmt.Sprintf("%q", s)
		}
		os := make([]string, len(offs))
		for k, o := range offs {
			os[k] = fmt.Sprintf("(%q, %q, %s)", o[0], o[1], o[2])
		}
		if i > 0 {
			lf.raw(",")
		}
		lf.raw(fmt.Sprintf("\n  (%q, [%s], [%s])", f.q+"."+f.fn, strings.Join(ss, ", "), strings.Join(os, ", ")))
	}
	lf.raw("]\n")
	lf.write(out)
}
