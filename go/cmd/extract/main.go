// extract: the translator. It reads /repo's *source* (go/packages: syntax +
// types, so constants are evaluated by the type checker, not by us) and writes
// the data the Lean theorems are stated over into lean/PttVerif/Gen/*.lean.
//
// Everything that is *data* in the Go source is regenerated here on every run;
// algorithms are modelled by hand and tied by the correspondence harness.
package main

import (
	"flag"
	"fmt"
	"go/ast"
	"go/constant"
	"go/token"
	"go/types"
	"os"
	"path/filepath"
	"sort"
	"strings"

	"golang.org/x/tools/go/packages"
)

const modPath = "github.com/Ptt-official-app/go-pttbbs"

type loader struct {
	repo string
	tags string
	pkgs map[string]*packages.Package
}

func newLoader(repo, tags string) *loader {
	return &loader{repo: repo, tags: tags, pkgs: map[string]*packages.Package{}}
}

func (l *loader) load(rel string) *packages.Package {
	if p, ok := l.pkgs[rel]; ok {
		return p
	}
	cfg := &packages.Config{
		Mode: packages.NeedName | packages.NeedFiles | packages.NeedSyntax | packages.NeedTypes |
			packages.NeedTypesInfo | packages.NeedImports | packages.NeedDeps | packages.NeedTypesSizes,
		Dir: l.repo,
		Env: append(os.Environ(), "GOFLAGS=-mod=mod", "GOPROXY=off", "GOSUMDB=off", "GOTOOLCHAIN=local"),
	}
	if l.tags != "" {
		cfg.BuildFlags = []string{"-tags=" + l.tags}
	}
	pat := modPath
	if rel != "" && rel != "." {
		pat = modPath + "/" + rel
	}
	ps, err := packages.Load(cfg, pat)
	if err != nil {
		fatal("load %s: %v", pat, err)
	}
	if len(ps) != 1 {
		fatal("load %s: %d packages", pat, len(ps))
	}
	if len(ps[0].Errors) > 0 {
		fatal("load %s: %v", pat, ps[0].Errors)
	}
	l.pkgs[rel] = ps[0]
	return ps[0]
}

func fatal(f string, a ...interface{}) {
	fmt.Fprintf(os.Stderr, "extract: "+f+"\n", a...)
	os.Exit(2)
}

// ---- generic literal readers ------------------------------------------------

func lookup(p *packages.Package, name string) types.Object {
	o := p.Types.Scope().Lookup(name)
	if o == nil {
		fatal("%s: no object %s", p.PkgPath, name)
	}
	return o
}

func constInt(p *packages.Package, name string) int64 {
	c, ok := lookup(p, name).(*types.Const)
	if !ok {
		fatal("%s.%s is not a constant", p.PkgPath, name)
	}
	v := constant.ToInt(c.Val())
	i, ok := constant.Int64Val(v)
	if !ok {
		u, ok2 := constant.Uint64Val(v)
		if !ok2 {
			fatal("%s.%s: not an integer constant", p.PkgPath, name)
		}
		return int64(u)
	}
	return i
}

func constBig(p *packages.Package, name string) string {
	c, ok := lookup(p, name).(*types.Const)
	if !ok {
		fatal("%s.%s is not a constant", p.PkgPath, name)
	}
	return constant.ToInt(c.Val()).ExactString()
}

func constString(p *packages.Package, name string) string {
	c, ok := lookup(p, name).(*types.Const)
	if !ok || c.Val().Kind() != constant.String {
		fatal("%s.%s is not a string constant", p.PkgPath, name)
	}
	return constant.StringVal(c.Val())
}

// varInit finds the initialiser expression of a package-level var.
func varInit(p *packages.Package, name string) ast.Expr {
	for _, f := range p.Syntax {
		for _, d := range f.Decls {
			gd, ok := d.(*ast.GenDecl)
			if !ok || gd.Tok != token.VAR {
				continue
			}
			for _, s := range gd.Specs {
				vs := s.(*ast.ValueSpec)
				for i, n := range vs.Names {
					if n.Name == name && i < len(vs.Values) {
						return vs.Values[i]
					}
				}
			}
		}
	}
	fatal("%s: no initialiser for var %s", p.PkgPath, name)
	return nil
}

// litInts flattens a (possibly nested, possibly keyed) array/slice composite
// literal of integer constants into rows. dims receives the shape.
func litInts(p *packages.Package, e ast.Expr) (flat []string, dims []int) {
	e = ast.Unparen(e)
	if tv, ok := p.TypesInfo.Types[e]; ok && tv.Value != nil {
		switch tv.Value.Kind() {
		case constant.Int:
			return []string{tv.Value.ExactString()}, nil
		case constant.String:
			s := constant.StringVal(tv.Value)
			for i := 0; i < len(s); i++ {
				flat = append(flat, fmt.Sprint(s[i]))
			}
			return flat, []int{len(s)}
		}
	}
	// conversion like []byte("..") or T(x)
	if call, ok := e.(*ast.CallExpr); ok && len(call.Args) == 1 {
		if tv, ok := p.TypesInfo.Types[call.Fun]; ok && tv.IsType() {
			return litInts(p, call.Args[0])
		}
	}
	cl, ok := e.(*ast.CompositeLit)
	if !ok {
		fatal("%s: unsupported literal element %T at %v", p.PkgPath, e, p.Fset.Position(e.Pos()))
	}
	n := len(cl.Elts)
	// array length from the type, when it is an array
	if t := p.TypesInfo.TypeOf(cl); t != nil {
		if at, ok := t.Underlying().(*types.Array); ok {
			n = int(at.Len())
		}
	}
	rows := make([][]string, n)
	var sub []int
	pos := 0
	for _, el := range cl.Elts {
		val := el
		if kv, ok := el.(*ast.KeyValueExpr); ok {
			ktv := p.TypesInfo.Types[kv.Key]
			if ktv.Value == nil {
				fatal("non-constant key at %v", p.Fset.Position(kv.Pos()))
			}
			k, _ := constant.Int64Val(constant.ToInt(ktv.Value))
			pos = int(k)
			val = kv.Value
		}
		if pos >= len(rows) {
			nr := make([][]string, pos+1)
			copy(nr, rows)
			rows = nr
		}
		f, d := litInts(p, val)
		rows[pos] = f
		sub = d
		pos++
	}
	width := 1
	for _, d := range sub {
		width *= d
	}
	for _, r := range rows {
		if r == nil {
			r = make([]string, width)
			for i := range r {
				r[i] = "0"
			}
		}
		flat = append(flat, r...)
	}
	return flat, append([]int{len(rows)}, sub...)
}

// ---- Lean emission ------------------------------------------------------------

type leanFile struct {
	name string
	b    strings.Builder
}

func newLean(name string, imports ...string) *leanFile {
	lf := &leanFile{name: name}
	lf.b.WriteString("-- GENERATED by /verif/go/cmd/extract from /repo's working tree. Do not edit.\n")
	for _, im := range imports {
		fmt.Fprintf(&lf.b, "import %s\n", im)
	}
	fmt.Fprintf(&lf.b, "namespace PttVerif.Gen.%s\n\n", name)
	return lf
}

func (lf *leanFile) natList(name string, vals []string) {
	fmt.Fprintf(&lf.b, "def %s : List Nat := [", name)
	for i, v := range vals {
		if i > 0 {
			lf.b.WriteString(", ")
		}
		if i%16 == 0 {
			lf.b.WriteString("\n  ")
		}
		lf.b.WriteString(v)
	}
	lf.b.WriteString("]\n\n")
}

// natTable emits a 2-dimensional table as a list of rows.
func (lf *leanFile) natTable(name string, vals []string, rows, cols int) {
	fmt.Fprintf(&lf.b, "def %s : List (List Nat) := [", name)
	for r := 0; r < rows; r++ {
		if r > 0 {
			lf.b.WriteString(",")
		}
		lf.b.WriteString("\n  [")
		lf.b.WriteString(strings.Join(vals[r*cols:(r+1)*cols], ", "))
		lf.b.WriteString("]")
	}
	lf.b.WriteString("]\n\n")
}

func (lf *leanFile) nat(name string, v interface{}) {
	fmt.Fprintf(&lf.b, "def %s : Nat := %v\n", name, v)
}

func (lf *leanFile) int(name string, v int64) {
	if v < 0 {
		fmt.Fprintf(&lf.b, "def %s : Int := (%d)\n", name, v)
	} else {
		fmt.Fprintf(&lf.b, "def %s : Int := %d\n", name, v)
	}
}

func (lf *leanFile) raw(s string) { lf.b.WriteString(s) }

func (lf *leanFile) write(dir string) {
	fmt.Fprintf(&lf.b, "\nend PttVerif.Gen.%s\n", lf.name)
	path := filepath.Join(dir, lf.name+".lean")
	newContent := lf.b.String()
	old, err := os.ReadFile(path)
	if err == nil && string(old) == newContent {
		return
	}
	if err := os.WriteFile(path, []byte(newContent), 0o644); err != nil {
		fatal("write %s: %v", path, err)
	}
	fmt.Printf("extract: wrote %s\n", path)
}

func bytesOf(s string) []string {
	out := make([]string, len(s))
	for i := 0; i < len(s); i++ {
		out[i] = fmt.Sprint(s[i])
	}
	return out
}

func sortedKeys(m map[string]string) []string {
	ks := make([]string, 0, len(m))
	for k := range m {
		ks = append(ks, k)
	}
	sort.Strings(ks)
	return ks
}

func main() {
	repo := flag.String("repo", "/repo", "repository root")
	out := flag.String("out", "/verif/lean/PttVerif/Gen", "output directory")
	only := flag.String("only", "", "comma separated list of generators (default all)")
	flag.Parse()
	if err := os.MkdirAll(*out, 0o755); err != nil {
		fatal("%v", err)
	}
	want := map[string]bool{}
	for _, w := range strings.Split(*only, ",") {
		if w != "" {
			want[w] = true
		}
	}
	l := newLoader(*repo, "")
	for _, g := range generators {
		if len(want) > 0 && !want[g.name] {
			continue
		}
		g.run(l, *repo, *out)
	}
}

type generator struct {
	name string
	run  func(l *loader, repo, out string)
}

var generators []generator

func register(name string, run func(l *loader, repo, out string)) {
	generators = append(generators, generator{name, run})
}
