package main

// Gen/NewBoard.lean (C12): what the SOURCE says about the board-creation path.
//
//   - constants (MAX_BOARD, IDLEN, MAX_BMs, MAX_USERS, the BRD_* / PERM_* bits used by mNewbrd / NewBoard /
//     LoadBoardSummary, DEFAULT_AUTOCPLOG's initialiser, the two title symbols);
//   - the layout of BoardHeaderRaw (go/types Sizes, gc/amd64): size and (offset, size) of the fields the
//     creation path sets, plus FirstChild (cleared in the shared copy by SortBCache);
//   - ptt.addBoardRecord: the text of the 4th argument of its SubstituteRecord call, classified as
//     "zeroBased" (it goes through bid.ToBidInStore()), "oneBased" (the 1-based bid itself) or "other";
//   - (*BoardID_t).IsValid: the length bounds, the start of the loop, the index expression of the byte read
//     inside the loop classified as "b[idx]" (the loop variable) / "b[0]" (a constant) / "other", and the
//     extra characters the tested byte is compared with (`ch != '<c>'` or `ch == '<c>'`);
//   - ptt.NewBoard: whether it refuses (ErrInvalidBid) a parent that is vacated or not a group board before
//     groupOp ("vacatedOrNonGroup" / "none" / "other");
//   - the calls of ptt.NewBoard, ptt.mNewbrd and ptt.addBoardRecord in source order (which check precedes
//     which side effect is a fact of the source).

import (
	"fmt"
	"go/ast"
	"go/constant"
	"go/token"
	"go/types"
	"strings"

	"golang.org/x/tools/go/packages"
)

func nbFunc(p *packages.Package, recv, name string) *ast.FuncDecl {
	for _, f := range p.Syntax {
		for _, d := range f.Decls {
			fd, ok := d.(*ast.FuncDecl)
			if !ok || fd.Name.Name != name || fd.Body == nil {
				continue
			}
			if recv == "" {
				if fd.Recv == nil {
					return fd
				}
				continue
			}
			if fd.Recv == nil || len(fd.Recv.List) != 1 {
				continue
			}
			if strings.TrimPrefix(types.ExprString(fd.Recv.List[0].Type), "*") == recv {
				return fd
			}
		}
	}
	fatal("%s: no function %s %s", p.PkgPath, recv, name)
	return nil
}

func nbCallName(call *ast.CallExpr) string {
	switch f := call.Fun.(type) {
	case *ast.SelectorExpr:
		if x, ok := f.X.(*ast.Ident); ok {
			return x.Name + "." + f.Sel.Name
		}
		return "_." + f.Sel.Name
	case *ast.Ident:
		return f.Name
	}
	return "?"
}

// nbCalls lists the calls of fn's body in source order (by position), skipping conversions and builtins.
func nbCalls(p *packages.Package, fd *ast.FuncDecl) []string {
	var out []string
	ast.Inspect(fd.Body, func(n ast.Node) bool {
		call, ok := n.(*ast.CallExpr)
		if !ok {
			return true
		}
		if tv, ok := p.TypesInfo.Types[call.Fun]; ok && (tv.IsType() || tv.IsBuiltin()) {
			return true
		}
		out = append(out, nbCallName(call))
		return true
	})
	return out
}

func leanStrList(xs []string) string {
	q := make([]string, len(xs))
	for i, x := range xs {
		q[i] = fmt.Sprintf("%q", x)
	}
	return "[" + strings.Join(q, ", ") + "]"
}

func init() {
	register("NewBoard", func(l *loader, repo, out string) {
		pp := l.load("ptt")
		pt := pp.Imports[modPath+"/ptttype"]
		if pt == nil || pt.Types == nil {
			fatal("ptt does not import ptttype")
		}
		// the syntax of ptttype (the import above carries types only when loaded as a dependency)
		pts := l.load("ptttype")
		sizes := types.SizesFor("gc", "amd64")

		lf := newLean("NewBoard")
		lf.raw("/- constants (default build tags) -/\n")
		for _, c := range []struct{ def, name string }{
			{"maxBoard", "MAX_BOARD"}, {"idLen", "IDLEN"}, {"maxBMs", "MAX_BMs"}, {"maxUsers", "MAX_USERS"},
			{"brdGroupBoard", "BRD_GROUPBOARD"}, {"brdHide", "BRD_HIDE"}, {"brdPostMask", "BRD_POSTMASK"},
			{"brdCpLog", "BRD_CPLOG"}, {"brdOver18", "BRD_OVER18"},
			{"permBasic", "PERM_BASIC"}, {"permLoginOK", "PERM_LOGINOK"}, {"permBM", "PERM_BM"},
			{"permBoard", "PERM_BOARD"}, {"permSysop", "PERM_SYSOP"}, {"permNoCitizen", "PERM_NOCITIZEN"},
			{"permPoliceMan", "PERM_POLICE_MAN"}, {"permSysSubOp", "PERM_SYSSUBOP"}, {"permPolice", "PERM_POLICE"},
		} {
			lf.nat(c.def, constBig(pts, c.name))
		}
		// DEFAULT_AUTOCPLOG is a configuration variable; its initialiser is the default.
		auto := varInit(pts, "DEFAULT_AUTOCPLOG")
		atv, ok := pts.TypesInfo.Types[auto]
		if !ok || atv.Value == nil || atv.Value.Kind() != constant.Bool {
			fatal("ptttype.DEFAULT_AUTOCPLOG: initialiser is not a boolean constant")
		}
		lf.raw(fmt.Sprintf("def defaultAutoCpLog : Bool := %v\n", constant.BoolVal(atv.Value)))
		for _, v := range []struct{ def, name string }{{"symbolGroup", "BRD_SYMBOL_GROUP"}, {"symbolBoard", "BRD_SYMBOL_BOARD"}} {
			flat, _ := litInts(pts, varInit(pts, v.name))
			lf.raw(fmt.Sprintf("def %s : List Nat := [%s]\n", v.def, strings.Join(flat, ", ")))
		}

		// ---- layout --------------------------------------------------------------------
		lf.raw("\n/- layout of ptttype.BoardHeaderRaw (go/types, gc/amd64): (field, offset, size) -/\n")
		tn, ok := lookup(pts, "BoardHeaderRaw").(*types.TypeName)
		if !ok {
			fatal("ptttype.BoardHeaderRaw is not a type")
		}
		st, ok := tn.Type().Underlying().(*types.Struct)
		if !ok {
			fatal("ptttype.BoardHeaderRaw is not a struct")
		}
		fields := make([]*types.Var, st.NumFields())
		for i := range fields {
			fields[i] = st.Field(i)
		}
		offs := sizes.Offsetsof(fields)
		lf.nat("recSize", sizes.Sizeof(tn.Type()))
		var rows []string
		for _, want := range []string{"Brdname", "Title", "BM", "BrdAttr", "ChessCountry", "Level", "Gid", "FirstChild"} {
			found := false
			for i, f := range fields {
				if f.Name() == want {
					rows = append(rows, fmt.Sprintf("(%q, %d, %d)", want, offs[i], sizes.Sizeof(f.Type())))
					found = true
				}
			}
			if !found {
				fatal("ptttype.BoardHeaderRaw has no field %s", want)
			}
		}
		lf.raw("def fields : List (String × Nat × Nat) := [" + strings.Join(rows, ", ") + "]\n")
		for _, t := range []struct{ def, name string }{{"userIdSize", "UserID_t"}} {
			o, ok := lookup(pts, t.name).(*types.TypeName)
			if !ok {
				fatal("ptttype.%s is not a type", t.name)
			}
			lf.nat(t.def, sizes.Sizeof(o.Type()))
		}

		// ---- addBoardRecord: the index handed to SubstituteRecord ---------------------------
		lf.raw("\n/- ptt.addBoardRecord -/\n")
		fd := nbFunc(pp, "", "addBoardRecord")
		var subst []*ast.CallExpr
		ast.Inspect(fd.Body, func(n ast.Node) bool {
			if call, ok := n.(*ast.CallExpr); ok && strings.HasSuffix(nbCallName(call), ".SubstituteRecord") {
				subst = append(subst, call)
			}
			return true
		})
		if len(subst) != 1 || len(subst[0].Args) != 4 {
			fatal("addBoardRecord: expected exactly one SubstituteRecord call with 4 arguments (found %d)", len(subst))
		}
		arg := subst[0].Args[3]
		argText := types.ExprString(arg)
		// strip conversions
		inner := ast.Unparen(arg)
		for {
			c, ok := inner.(*ast.CallExpr)
			if !ok || len(c.Args) != 1 {
				break
			}
			if tv, ok := pp.TypesInfo.Types[c.Fun]; !ok || !tv.IsType() {
				break
			}
			inner = ast.Unparen(c.Args[0])
		}
		class := "other"
		isBid := func(e ast.Expr) bool {
			t := pp.TypesInfo.TypeOf(e)
			if t == nil {
				return false
			}
			n, ok := t.(*types.Named)
			return ok && n.Obj().Name() == "Bid"
		}
		switch e := inner.(type) {
		case *ast.Ident:
			if isBid(e) {
				class = "oneBased"
			}
		case *ast.CallExpr:
			if sel, ok := e.Fun.(*ast.SelectorExpr); ok && sel.Sel.Name == "ToBidInStore" && len(e.Args) == 0 && isBid(sel.X) {
				class = "zeroBased"
			}
		case *ast.BinaryExpr:
			// bid - 1
			if e.Op == token.SUB && isBid(e.X) {
				if tv, ok := pp.TypesInfo.Types[e.Y]; ok && tv.Value != nil && tv.Value.ExactString() == "1" {
					class = "zeroBased"
				}
			}
		}
		lf.raw(fmt.Sprintf("def substituteIndexText : String := %q\n", argText))
		lf.raw(fmt.Sprintf("def substituteIndex : String := %q\n", class))
		lf.raw("def addBoardRecordCalls : List String := " + leanStrList(nbCalls(pp, fd)) + "\n")

		lf.raw("\n/- ptt.mNewbrd, ptt.NewBoard: calls in source order -/\n")
		lf.raw("def mNewbrdCalls : List String := " + leanStrList(nbCalls(pp, nbFunc(pp, "", "mNewbrd"))) + "\n")
		nbFn := nbFunc(pp, "", "NewBoard")
		lf.raw("def newBoardCalls : List String := " + leanStrList(nbCalls(pp, nbFn)) + "\n")
		// the parent test of NewBoard: an `if` before the groupOp call that returns an error and whose condition
		// looks at the parent's Brdname and at BRD_GROUPBOARD
		parentCheck := "none"
		var groupOpPos token.Pos
		ast.Inspect(nbFn.Body, func(n ast.Node) bool {
			if call, ok := n.(*ast.CallExpr); ok && nbCallName(call) == "groupOp" && groupOpPos == 0 {
				groupOpPos = call.Pos()
			}
			return true
		})
		for _, st := range nbFn.Body.List {
			is, ok := st.(*ast.IfStmt)
			if !ok || (groupOpPos != 0 && is.Pos() > groupOpPos) {
				continue
			}
			hasName, hasGroup := false, false
			ast.Inspect(is.Cond, func(n ast.Node) bool {
				switch e := n.(type) {
				case *ast.SelectorExpr:
					if e.Sel.Name == "Brdname" {
						hasName = true
					}
					if e.Sel.Name == "BRD_GROUPBOARD" {
						hasGroup = true
					}
				}
				return true
			})
			if hasName || hasGroup {
				parentCheck = "other"
				if hasName && hasGroup && len(is.Body.List) > 0 {
					if ret, ok := is.Body.List[len(is.Body.List)-1].(*ast.ReturnStmt); ok && strings.Contains(types.ExprString(ret.Results[len(ret.Results)-1]), "ErrInvalidBid") {
						parentCheck = "vacatedOrNonGroup"
					}
				}
			}
		}
		lf.raw(fmt.Sprintf("def parentCheck : String := %q\n", parentCheck))

		// ---- ptt.InitCurrentUser: the level a user record is given for the two special ids ---------------
		lf.raw("\n/- ptt.InitCurrentUser (pwcuInitAdminPerm / pwcuInitGuestPerm): the constant assigned to UserLevel -/\n")
		for _, v := range []struct{ def, fn string }{{"adminLevel", "pwcuInitAdminPerm"}, {"guestLevel", "pwcuInitGuestPerm"}} {
			fd := nbFunc(pp, "", v.fn)
			val := ""
			ast.Inspect(fd.Body, func(n ast.Node) bool {
				as, ok := n.(*ast.AssignStmt)
				if !ok || len(as.Lhs) != 1 || len(as.Rhs) != 1 || val != "" {
					return true
				}
				if sel, ok := as.Lhs[0].(*ast.SelectorExpr); ok && sel.Sel.Name == "UserLevel" {
					if tv, ok := pp.TypesInfo.Types[as.Rhs[0]]; ok && tv.Value != nil {
						val = constant.ToInt(tv.Value).ExactString()
					}
				}
				return true
			})
			if val == "" {
				fatal("ptt.%s: no constant assignment to UserLevel", v.fn)
			}
			lf.nat(v.def, val)
		}
		lf.raw("def strGuest : List Nat := [" + strings.Join(bytesOf(constString(pts, "STR_GUEST")), ", ") + "]\n")
		sys, _ := litInts(pts, varInit(pts, "STR_SYSOP"))
		lf.raw("def strSysop : List Nat := [" + strings.Join(sys, ", ") + "]\n")

		// ---- (*BoardID_t).IsValid ----------------------------------------------------------------
		lf.raw("\n/- ptttype.(*BoardID_t).IsValid -/\n")
		iv := nbFunc(pts, "BoardID_t", "IsValid")
		var loop *ast.ForStmt
		lenLo, lenHi := "", ""
		ast.Inspect(iv.Body, func(n ast.Node) bool {
			switch s := n.(type) {
			case *ast.ForStmt:
				if loop == nil {
					loop = s
				}
			case *ast.IfStmt:
				// lenB < 2 || lenB > IDLEN
				if b, ok := ast.Unparen(s.Cond).(*ast.BinaryExpr); ok && b.Op == token.LOR && loop == nil {
					x, ok1 := ast.Unparen(b.X).(*ast.BinaryExpr)
					y, ok2 := ast.Unparen(b.Y).(*ast.BinaryExpr)
					if ok1 && ok2 && x.Op == token.LSS && y.Op == token.GTR {
						if tv, ok := pts.TypesInfo.Types[x.Y]; ok && tv.Value != nil {
							lenLo = tv.Value.ExactString()
						}
						if tv, ok := pts.TypesInfo.Types[y.Y]; ok && tv.Value != nil {
							lenHi = tv.Value.ExactString()
						}
					}
				}
			}
			return true
		})
		if loop == nil || lenLo == "" || lenHi == "" {
			fatal("BoardID_t.IsValid: no `lenB < lo || lenB > hi` test followed by a for loop")
		}
		loopVar := types.Object(nil)
		loopStart := ""
		if as, ok := loop.Init.(*ast.AssignStmt); ok && as.Tok == token.DEFINE && len(as.Lhs) == 1 && len(as.Rhs) == 1 {
			if id, ok := as.Lhs[0].(*ast.Ident); ok {
				loopVar = pts.TypesInfo.Defs[id]
			}
			if tv, ok := pts.TypesInfo.Types[as.Rhs[0]]; ok && tv.Value != nil {
				loopStart = tv.Value.ExactString()
			}
		}
		if loopVar == nil || loopStart == "" {
			fatal("BoardID_t.IsValid: the loop does not start with `idx := <constant>`")
		}
		// the byte the loop body tests: the last index expression assigned to the tested variable, or the
		// receiver index used in the condition
		idxText, idxClass := "", "other"
		var extra []string
		ast.Inspect(loop.Body, func(n ast.Node) bool {
			switch e := n.(type) {
			case *ast.IndexExpr:
				if idxText == "" {
					idxText = types.ExprString(e)
					switch ix := ast.Unparen(e.Index).(type) {
					case *ast.Ident:
						if pts.TypesInfo.Uses[ix] == loopVar {
							idxClass = "b[idx]"
						}
					default:
						if tv, ok := pts.TypesInfo.Types[ix]; ok && tv.Value != nil && tv.Value.ExactString() == "0" {
							idxClass = "b[0]"
						}
					}
				}
			case *ast.BinaryExpr:
				if e.Op == token.NEQ || e.Op == token.EQL {
					if tv, ok := pts.TypesInfo.Types[e.Y]; ok && tv.Value != nil && tv.Value.Kind() == constant.Int {
						extra = append(extra, tv.Value.ExactString())
					}
				}
			}
			return true
		})
		if idxText == "" {
			// no byte is read inside the loop: the test is about the byte read before it (b[0])
			idxText, idxClass = "(none: the loop tests the byte read before it)", "b[0]"
		}
		lf.nat("isValidLenLo", lenLo)
		lf.nat("isValidLenHi", lenHi)
		lf.nat("isValidLoopStart", loopStart)
		lf.raw(fmt.Sprintf("def isValidIndexText : String := %q\n", idxText))
		lf.raw(fmt.Sprintf("def isValidIndex : String := %q\n", idxClass))
		lf.raw("def isValidExtraChars : List Nat := [" + strings.Join(extra, ", ") + "]\n")
		lf.write(out)
	})
}
