package main

// Gen/C18Str.lean: the data the byte-string helpers of property C18 depend on:
//   cmsys/const.go   ESCAPE_FLAG, FNV1_32_INIT, FNV_32_PRIME, STRIP_ANSI_*, DBCS_*
//   types/ansi       ESC_CHR
//   ptttype          HASH_BITS, TTLEN, STR_REPLY, STR_FORWARD, STR_LEGACY_FORWARD, SUBJECT_*, PATTERN_ANSI_MOVECMD, PATTERN_ANSI_CODE
func init() {
	register("C18Str", func(l *loader, repo, out string) {
		cm := l.load("cmsys")
		an := l.load("types/ansi")
		pt := l.load("ptttype")
		lf := newLean("C18Str")

		tbl, dims := litInts(cm, varInit(cm, "ESCAPE_FLAG"))
		if len(dims) != 1 {
			fatal("ESCAPE_FLAG: unexpected shape %v", dims)
		}
		lf.natList("escapeFlag", tbl)
		lf.nat("fnv1_32_init", constBig(cm, "FNV1_32_INIT"))
		lf.nat("fnv_32_prime", constBig(cm, "FNV_32_PRIME"))
		lf.nat("stripAnsiAll", constInt(cm, "STRIP_ANSI_ALL"))
		lf.nat("stripAnsiOnlyColor", constInt(cm, "STRIP_ANSI_ONLY_COLOR"))
		lf.nat("stripAnsiNoReload", constInt(cm, "STRIP_ANSI_NO_RELOAD"))
		lf.nat("dbcsAscii", constInt(cm, "DBCS_ASCII"))
		lf.nat("dbcsLeading", constInt(cm, "DBCS_LEADING"))
		lf.nat("dbcsTrailing", constInt(cm, "DBCS_TRAILING"))
		lf.nat("escChr", constInt(an, "ESC_CHR"))
		lf.nat("hashBits", constInt(pt, "HASH_BITS"))
		lf.nat("ttlen", constInt(pt, "TTLEN"))
		lf.nat("subjectNormal", constInt(pt, "SUBJECT_NORMAL"))
		lf.nat("subjectReply", constInt(pt, "SUBJECT_REPLY"))
		lf.nat("subjectForward", constInt(pt, "SUBJECT_FORWARD"))
		for _, v := range [][2]string{{"strReply", "STR_REPLY"}, {"strForward", "STR_FORWARD"}, {"strLegacyForward", "STR_LEGACY_FORWARD"},
			{"patternAnsiMoveCmd", "PATTERN_ANSI_MOVECMD"}, {"patternAnsiCode", "PATTERN_ANSI_CODE"}} {
			bs, d := litInts(pt, varInit(pt, v[1]))
			if len(d) != 1 {
				fatal("%s: unexpected shape %v", v[1], d)
			}
			lf.natList(v[0], bs)
		}
		lf.write(out)
	})
}
