package main

import (
	"bytes"
	"fmt"
	"go/ast"
	"go/printer"
	"go/types"
	"strconv"
	"strings"

	"golang.org/x/tools/go/packages"
)

// Gen/C18Str.lean: the data the byte-string helpers of property C18 depend on:
//   cmsys/const.go   ESCAPE_FLAG, FNV1_32_INIT, FNV_32_PRIME, STRIP_ANSI_*, DBCS_*
//   types/ansi       ESC_CHR
//   ptttype          HASH_BITS, TTLEN, STR_REPLY, STR_FORWARD, STR_LEGACY_FORWARD, SUBJECT_*, PATTERN_ANSI_MOVECMD, PATTERN_ANSI_CODE
func init() {
	register("C18Str", func(l *loader, repo, out string) {
		cm := l.load("cmsys")
		an := l.load("types/ansi")
		pt := l.load("ptttype")
		lf := newLean("C18Str")

		tbl, dims := litInts(cm, varInit(cm, "ESCAPE_FLAG"))
		if len(dims) != 1 {
			fatal("ESCAPE_FLAG: unexpected shape %v", dims)
		}
		lf.natList("escapeFlag", tbl)
		lf.nat("fnv1_32_init", constBig(cm, "FNV1_32_INIT"))
		lf.nat("fnv_32_prime", constBig(cm, "FNV_32_PRIME"))
		lf.nat("stripAnsiAll", constInt(cm, "STRIP_ANSI_ALL"))
		lf.nat("stripAnsiOnlyColor", constInt(cm, "STRIP_ANSI_ONLY_COLOR"))
		lf.nat("stripAnsiNoReload", constInt(cm, "STRIP_ANSI_NO_RELOAD"))
		lf.nat("dbcsAscii", constInt(cm, "DBCS_ASCII"))
		lf.nat("dbcsLeading", constInt(cm, "DBCS_LEADING"))
		lf.nat("dbcsTrailing", constInt(cm, "DBCS_TRAILING"))
		lf.nat("escChr", constInt(an, "ESC_CHR"))
		lf.nat("hashBits", constInt(pt, "HASH_BITS"))
		lf.nat("ttlen", constInt(pt, "TTLEN"))
		lf.nat("subjectNormal", constInt(pt, "SUBJECT_NORMAL"))
		lf.nat("subjectReply", constInt(pt, "SUBJECT_REPLY"))
		lf.nat("subjectForward", constInt(pt, "SUBJECT_FORWARD"))
		for _, v := range [][2]string{{"strReply", "STR_REPLY"}, {"strForward", "STR_FORWARD"}, {"strLegacyForward", "STR_LEGACY_FORWARD"},
			{"patternAnsiMoveCmd", "PATTERN_ANSI_MOVECMD"}, {"patternAnsiCode", "PATTERN_ANSI_CODE"}} {
			bs, d := litInts(pt, varInit(pt, v[1]))
			if len(d) != 1 {
				fatal("%s: unexpected shape %v", v[1], d)
			}
			lf.natList(v[0], bs)
		}
		// --- call sites (ptt/talk.go myWrite, ptt/bbs.go CrossPost) ---
		pp := l.load("ptt")
		lf.nat("lastCallInLen", c18ArrayLen(pt, "MsgQueueRaw", "LastCallIn"))
		strips, stmts := c18CallSites(pp)
		lf.raw(fmt.Sprintf("def myWriteStripsUnconditionally : Bool := %v\n\n", strips))
		lf.raw("def crossPostTitleStmts : List String := [")
		for i, st := range stmts {
			if i > 0 {
				lf.raw(", ")
			}
			lf.raw(strconv.Quote(st))
		}
		lf.raw("]\n")
		lf.write(out)
	})
}

// c18ArrayLen: the length of an array field of a struct type.
func c18ArrayLen(p *packages.Package, typ, field string) int64 {
	st, ok := lookup(p, typ).Type().Underlying().(*types.Struct)
	if !ok {
		fatal("%s.%s is not a struct", p.PkgPath, typ)
	}
	for i := 0; i < st.NumFields(); i++ {
		if st.Field(i).Name() == field {
			if at, ok := st.Field(i).Type().Underlying().(*types.Array); ok {
				return at.Len()
			}
		}
	}
	fatal("%s.%s.%s: no such array field", p.PkgPath, typ, field)
	return 0
}

func c18Print(p *packages.Package, n ast.Node) string {
	var b bytes.Buffer
	_ = printer.Fprint(&b, p.Fset, n)
	return strings.Join(strings.Fields(b.String()), " ")
}

// c18CallSites reads two facts out of package ptt:
//   - myWrite passes EVERY message through strip-all: `msg := cmsys.StripAnsi(prompt, cmsys.STRIP_ANSI_ALL)` is a
//     statement of the function body itself (not nested in an if/for/switch), msg is not assigned anywhere else,
//     and myWriteMsg receives msg;
//   - the statements of CrossPost's body that write the new article's Title field, in order.
func c18CallSites(p *packages.Package) (strips bool, titleStmts []string) {
	for _, f := range p.Syntax {
		for _, d := range f.Decls {
			fd, ok := d.(*ast.FuncDecl)
			if !ok || fd.Body == nil || fd.Recv != nil {
				continue
			}
			switch fd.Name.Name {
			case "myWrite":
				direct, passes, others := false, false, 0
				for _, st := range fd.Body.List {
					if as, ok := st.(*ast.AssignStmt); ok && len(as.Lhs) == 1 && c18Print(p, as.Lhs[0]) == "msg" {
						if c18Print(p, st) == "msg := cmsys.StripAnsi(prompt, cmsys.STRIP_ANSI_ALL)" {
							direct = true
						}
					}
				}
				ast.Inspect(fd.Body, func(n ast.Node) bool {
					switch x := n.(type) {
					case *ast.AssignStmt:
						for _, lh := range x.Lhs {
							if c18Print(p, lh) == "msg" {
								others++
							}
						}
					case *ast.CallExpr:
						if c18Print(p, x.Fun) == "myWriteMsg" && len(x.Args) > 0 && c18Print(p, x.Args[len(x.Args)-1]) == "msg" {
							passes = true
						}
					}
					return true
				})
				strips = direct && passes && others == 1
			case "CrossPost":
				ast.Inspect(fd.Body, func(n ast.Node) bool {
					es, ok := n.(*ast.ExprStmt)
					if !ok {
						return true
					}
					txt := c18Print(p, es)
					if strings.Contains(txt, "xFileHeader.Title") && (strings.HasPrefix(txt, "copy(") || strings.Contains(txt, "TrimDBCS(")) {
						titleStmts = append(titleStmts, txt)
					}
					return true
				})
			}
		}
	}
	return strips, titleStmts
}
