package main

// Gen/UHash.lean (C04): the constants the user-ID index is built from, as the SOURCE states them
// (evaluated by the type checker under the default build tags):
//   ptttype.MAX_USERS, ptttype.HASH_BITS, ptttype.IDLEN, cache.PRE_ALLOCATED_USERS, cache.SHM_VERSION,
//   cmsys.FNV1_32_INIT, cmsys.FNV_32_PRIME, and the place of the UserID field inside a .PASSWDS record.

import (
	"go/types"
)

func init() {
	register("UHash", func(l *loader, repo, out string) {
		pc := l.load("cache")
		pt := pc.Imports[modPath+"/ptttype"]
		pm := pc.Imports[modPath+"/cmsys"]
		if pt == nil || pt.Types == nil || pm == nil || pm.Types == nil {
			fatal("cache does not import ptttype and cmsys")
		}
		sizes := types.SizesFor("gc", "amd64")
		tn, ok := lookup(pt, "UserecRaw").(*types.TypeName)
		if !ok {
			fatal("ptttype.UserecRaw is not a type")
		}
		st, ok := tn.Type().Underlying().(*types.Struct)
		if !ok {
			fatal("ptttype.UserecRaw is not a struct")
		}
		fields := make([]*types.Var, st.NumFields())
		for i := range fields {
			fields[i] = st.Field(i)
		}
		offs := sizes.Offsetsof(fields)
		var idOff, idSz int64 = -1, -1
		for i, f := range fields {
			if f.Name() == "UserID" {
				idOff, idSz = offs[i], sizes.Sizeof(f.Type())
			}
		}
		if idOff < 0 {
			fatal("ptttype.UserecRaw has no field UserID")
		}

		lf := newLean("UHash")
		lf.nat("maxUsers", constInt(pt, "MAX_USERS"))
		lf.nat("hashBits", constInt(pt, "HASH_BITS"))
		lf.nat("idLen", constInt(pt, "IDLEN"))
		lf.nat("preAllocated", constInt(pc, "PRE_ALLOCATED_USERS"))
		lf.nat("shmVersion", constInt(pc, "SHM_VERSION"))
		lf.nat("fnvInit", constBig(pm, "FNV1_32_INIT"))
		lf.nat("fnvPrime", constBig(pm, "FNV_32_PRIME"))
		lf.nat("recSize", sizes.Sizeof(tn.Type()))
		lf.nat("userIDOffset", idOff)
		lf.nat("userIDSize", idSz)
		lf.write(out)
	})
}
