package main

// Gen/Money.lean (C20): what the SOURCE says about the money write path.
//
//   - MAX_USERS under the default build tags, Sizeof(UserecRaw) and the offset/size of its Money field
//     (go/types Sizes for gc/amd64);
//   - inside cache.passwdUpdateMoney: the field named in `unsafe.Offsetof(ptttype.USEREC_RAW.<Field>)` with that
//     field's offset, the constant that multiplies the slot index in the Seek argument, the byte order and the
//     width of the value handed to BinaryWrite;
//   - the slot guards (first statement) of cache.SetUMoney, cache.DeUMoney and cache.passwdUpdateMoney as data:
//     a disjunction of comparisons `uid OP constant`.  A function without such a first statement gets `[]`.
//
// comparison codes: 0 "<", 1 "<=", 2 ">", 3 ">=", 4 "==", 5 "!=".

import (
	"fmt"
	"go/ast"
	"go/constant"
	"go/token"
	"go/types"
	"sort"
	"strings"

	"golang.org/x/tools/go/packages"
)

func moneyFuncDecl(p *packages.Package, name string) *ast.FuncDecl {
	for _, f := range p.Syntax {
		for _, d := range f.Decls {
			if fd, ok := d.(*ast.FuncDecl); ok && fd.Recv == nil && fd.Name.Name == name && fd.Body != nil {
				return fd
			}
		}
	}
	fatal("%s: no function %s", p.PkgPath, name)
	return nil
}

var moneyCmpCode = map[token.Token]int{token.LSS: 0, token.LEQ: 1, token.GTR: 2, token.GEQ: 3, token.EQL: 4, token.NEQ: 5}

// moneyGuard reads `if uid OP c || uid OP c ... { ...; return ... }` as the first statement of fn.
func moneyGuard(p *packages.Package, fn string) (codes []string, text string) {
	fd := moneyFuncDecl(p, fn)
	if len(fd.Body.List) == 0 {
		return nil, ""
	}
	is, ok := fd.Body.List[0].(*ast.IfStmt)
	if !ok || is.Init != nil || is.Else != nil || len(is.Body.List) == 0 {
		return nil, ""
	}
	if _, ok := is.Body.List[len(is.Body.List)-1].(*ast.ReturnStmt); !ok {
		return nil, ""
	}
	// the parameter the guard has to be about: the first parameter of the function
	if fd.Type.Params == nil || len(fd.Type.Params.List) == 0 || len(fd.Type.Params.List[0].Names) == 0 {
		fatal("%s.%s: no first parameter", p.PkgPath, fn)
	}
	param := p.TypesInfo.Defs[fd.Type.Params.List[0].Names[0]]
	var leaves []ast.Expr
	var flat func(e ast.Expr)
	flat = func(e ast.Expr) {
		e = ast.Unparen(e)
		if b, ok := e.(*ast.BinaryExpr); ok && b.Op == token.LOR {
			flat(b.X)
			flat(b.Y)
			return
		}
		leaves = append(leaves, e)
	}
	flat(is.Cond)
	var texts []string
	for _, e := range leaves {
		b, ok := e.(*ast.BinaryExpr)
		if !ok {
			fatal("%s.%s: slot guard has a disjunct that is not a comparison (at %v)", p.PkgPath, fn, p.Fset.Position(e.Pos()))
		}
		code, ok := moneyCmpCode[b.Op]
		if !ok {
			fatal("%s.%s: slot guard uses operator %v", p.PkgPath, fn, b.Op)
		}
		id, ok := ast.Unparen(b.X).(*ast.Ident)
		if !ok || p.TypesInfo.Uses[id] != param {
			fatal("%s.%s: slot guard compares something other than the slot parameter (at %v)", p.PkgPath, fn, p.Fset.Position(b.Pos()))
		}
		tv, ok := p.TypesInfo.Types[b.Y]
		if !ok || tv.Value == nil || tv.Value.Kind() != constant.Int {
			fatal("%s.%s: slot guard compares against a non-constant (at %v)", p.PkgPath, fn, p.Fset.Position(b.Y.Pos()))
		}
		v, exact := constant.Int64Val(tv.Value)
		if !exact {
			fatal("%s.%s: slot guard constant out of range", p.PkgPath, fn)
		}
		if v < 0 {
			codes = append(codes, fmt.Sprintf("(%d, (%d))", code, v))
		} else {
			codes = append(codes, fmt.Sprintf("(%d, %d)", code, v))
		}
		texts = append(texts, fmt.Sprintf("%s %s %d", id.Name, b.Op, v))
	}
	return codes, strings.Join(texts, " || ")
}

func init() {
	register("Money", func(l *loader, repo, out string) {
		pc := l.load("cache")
		// the ptttype instance the cache package was type-checked against (same type identities)
		pt := pc.Imports[modPath+"/ptttype"]
		if pt == nil || pt.Types == nil {
			fatal("cache does not import ptttype")
		}
		sizes := types.SizesFor("gc", "amd64")

		// ---- the record layout ------------------------------------------------------
		tn, ok := lookup(pt, "UserecRaw").(*types.TypeName)
		if !ok {
			fatal("ptttype.UserecRaw is not a type")
		}
		st, ok := tn.Type().Underlying().(*types.Struct)
		if !ok {
			fatal("ptttype.UserecRaw is not a struct")
		}
		fields := make([]*types.Var, st.NumFields())
		for i := range fields {
			fields[i] = st.Field(i)
		}
		offs := sizes.Offsetsof(fields)
		fieldOff := func(name string) (int64, int64) {
			for i, f := range fields {
				if f.Name() == name {
					return offs[i], sizes.Sizeof(f.Type())
				}
			}
			fatal("ptttype.UserecRaw has no field %s", name)
			return 0, 0
		}
		moneyOff, moneySz := fieldOff("Money")
		levelOff, levelSz := fieldOff("UserLevel")
		idOff, idSz := fieldOff("UserID")
		lastLoginOff, _ := fieldOff("LastLogin")
		pwOff, pwSz := fieldOff("PasswdHash")
		emOff, emSz := fieldOff("Email")

		// ---- which functions of package ptt write .PASSWDS, and how: through a field writer of cmbbs
		// (PasswdUpdatePasswd, PasswdUpdateEmail, ...), through passwdSyncUpdate (whole record, Money re-synced from
		// SHM first), or through cmbbs.PasswdUpdate directly (whole record, no re-sync).
		pp := l.load("ptt")
		type wr struct{ fn, kind string }
		var writers []wr
		for _, file := range pp.Syntax {
			for _, d := range file.Decls {
				fd, ok := d.(*ast.FuncDecl)
				if !ok || fd.Body == nil || fd.Recv != nil || fd.Name.Name == "passwdSyncUpdate" {
					continue
				}
				if strings.HasSuffix(pp.Fset.Position(fd.Pos()).Filename, "_test.go") {
					continue
				}
				kinds := map[string]bool{}
				ast.Inspect(fd.Body, func(n ast.Node) bool {
					call, ok := n.(*ast.CallExpr)
					if !ok {
						return true
					}
					name := ""
					switch f := call.Fun.(type) {
					case *ast.SelectorExpr:
						name = f.Sel.Name
					case *ast.Ident:
						name = f.Name
					}
					switch {
					case name == "passwdSyncUpdate":
						kinds["sync"] = true
					case name == "PasswdUpdate":
						kinds["direct"] = true
					case strings.HasPrefix(name, "PasswdUpdate"):
						kinds["field"] = true
					}
					return true
				})
				for _, k := range []string{"direct", "field", "sync"} {
					if kinds[k] {
						writers = append(writers, wr{fd.Name.Name, k})
					}
				}
			}
		}
		sort.Slice(writers, func(i, j int) bool {
			if writers[i].fn != writers[j].fn {
				return writers[i].fn < writers[j].fn
			}
			return writers[i].kind < writers[j].kind
		})

		// ---- the loader (cache.userecRawAddToUHash): which SHM arrays the "fill the slot from its record" block
		// assigns unconditionally and which only under `if ptttype.USE_COOLDOWN`.  The block is the body of the
		// `if !isOnfly || ...` statement; assignments made elsewhere (helpers) are not followed.
		var loaderCopies, loaderCopiesCd []string
		mentions := func(e ast.Expr, name string) bool {
			found := false
			ast.Inspect(e, func(n ast.Node) bool {
				switch x := n.(type) {
				case *ast.Ident:
					found = found || x.Name == name
				case *ast.SelectorExpr:
					found = found || x.Sel.Name == name
				}
				return !found
			})
			return found
		}
		shmField := func(e ast.Expr) string { // Shm.Shm.<Field>[...]
			ix, ok := e.(*ast.IndexExpr)
			if !ok {
				return ""
			}
			sel, ok := ix.X.(*ast.SelectorExpr)
			if !ok {
				return ""
			}
			if in, ok := sel.X.(*ast.SelectorExpr); !ok || in.Sel.Name != "Shm" {
				return ""
			}
			return sel.Sel.Name
		}
		var collect func(stmts []ast.Stmt, underCd bool)
		collect = func(stmts []ast.Stmt, underCd bool) {
			for _, st := range stmts {
				switch x := st.(type) {
				case *ast.AssignStmt:
					for _, l := range x.Lhs {
						if f := shmField(l); f != "" {
							if underCd {
								loaderCopiesCd = append(loaderCopiesCd, f)
							} else {
								loaderCopies = append(loaderCopies, f)
							}
						}
					}
				case *ast.IfStmt:
					if mentions(x.Cond, "USE_COOLDOWN") && x.Else == nil {
						collect(x.Body.List, true)
					} else {
						fatal("userecRawAddToUHash: unexpected nested if in the slot-fill block at %v", pc.Fset.Position(x.Pos()))
					}
				}
			}
		}
		loader := moneyFuncDecl(pc, "userecRawAddToUHash")
		for _, st := range loader.Body.List {
			if is, ok := st.(*ast.IfStmt); ok && mentions(is.Cond, "isOnfly") && mentions(is.Cond, "Cstrcmp") {
				collect(is.Body.List, false)
			}
		}
		quote := func(xs []string) string {
			q := make([]string, len(xs))
			for i, x := range xs {
				q[i] = fmt.Sprintf("%q", x)
			}
			return "[" + strings.Join(q, ", ") + "]"
		}
		// bytes that encoding/binary does not round-trip: a bool is read as (byte != 0) and written as 0/1
		var boolOffs []string
		var walk func(t types.Type, base int64)
		walk = func(t types.Type, base int64) {
			switch u := t.Underlying().(type) {
			case *types.Basic:
				if u.Kind() == types.Bool {
					boolOffs = append(boolOffs, fmt.Sprint(base))
				}
			case *types.Array:
				esz := sizes.Sizeof(u.Elem())
				for i := int64(0); i < u.Len(); i++ {
					walk(u.Elem(), base+i*esz)
				}
			case *types.Struct:
				fs := make([]*types.Var, u.NumFields())
				for i := range fs {
					fs[i] = u.Field(i)
				}
				os := sizes.Offsetsof(fs)
				for i, f := range fs {
					walk(f.Type(), base+os[i])
				}
			default:
				fatal("ptttype.UserecRaw: field type %v is not a fixed-size value", t)
			}
		}
		walk(tn.Type(), 0)
		recSize := sizes.Sizeof(tn.Type())

		// ---- passwdUpdateMoney: which field, which stride, which encoding -----------------
		fd := moneyFuncDecl(pc, "passwdUpdateMoney")
		var writtenField string
		var strideName string
		var strideVal int64 = -1
		order := ""
		valueBits := int64(-1)
		nOffsetof, nSeek, nWrite := 0, 0, 0
		ast.Inspect(fd.Body, func(n ast.Node) bool {
			call, ok := n.(*ast.CallExpr)
			if !ok {
				return true
			}
			sel, ok := call.Fun.(*ast.SelectorExpr)
			if !ok {
				return true
			}
			switch {
			case sel.Sel.Name == "Offsetof" && len(call.Args) == 1:
				if x, ok := sel.X.(*ast.Ident); !ok || x.Name != "unsafe" {
					return true
				}
				arg, ok := ast.Unparen(call.Args[0]).(*ast.SelectorExpr)
				if !ok {
					fatal("passwdUpdateMoney: unsafe.Offsetof of something that is not a field selector")
				}
				s := pc.TypesInfo.Selections[arg]
				if s == nil || s.Kind() != types.FieldVal {
					fatal("passwdUpdateMoney: unsafe.Offsetof argument is not a field")
				}
				if !types.Identical(s.Recv(), tn.Type()) {
					fatal("passwdUpdateMoney: unsafe.Offsetof is not taken on a ptttype.UserecRaw (but on %v)", s.Recv())
				}
				writtenField = arg.Sel.Name
				nOffsetof++
			case sel.Sel.Name == "Seek" && len(call.Args) == 2:
				nSeek++
				ast.Inspect(call.Args[0], func(m ast.Node) bool {
					b, ok := m.(*ast.BinaryExpr)
					if !ok || b.Op != token.MUL {
						return true
					}
					for _, side := range []ast.Expr{b.X, b.Y} {
						if tv, ok := pc.TypesInfo.Types[side]; ok && tv.Value != nil && tv.Value.Kind() == constant.Int {
							strideName = types.ExprString(side)
							strideVal, _ = constant.Int64Val(tv.Value)
						}
					}
					return true
				})
				if tv, ok := pc.TypesInfo.Types[call.Args[1]]; !ok || tv.Value == nil || tv.Value.ExactString() != "0" {
					fatal("passwdUpdateMoney: Seek whence is not the constant 0")
				}
			case sel.Sel.Name == "BinaryWrite" && len(call.Args) == 3:
				nWrite++
				if o, ok := ast.Unparen(call.Args[1]).(*ast.SelectorExpr); ok {
					order = o.Sel.Name
				}
				if t := pc.TypesInfo.TypeOf(call.Args[2]); t != nil {
					if ptr, ok := t.Underlying().(*types.Pointer); ok {
						valueBits = 8 * sizes.Sizeof(ptr.Elem())
						if basic, ok := ptr.Elem().Underlying().(*types.Basic); !ok || basic.Kind() != types.Int32 {
							fatal("passwdUpdateMoney: the value written is a %v, not an int32", ptr.Elem())
						}
					}
				}
			}
			return true
		})
		if nOffsetof != 1 || nSeek != 1 || nWrite != 1 || strideVal < 0 || valueBits < 0 || order == "" {
			fatal("passwdUpdateMoney: expected exactly one Offsetof/Seek/BinaryWrite (found %d/%d/%d), stride %q, order %q",
				nOffsetof, nSeek, nWrite, strideName, order)
		}
		writtenOff, _ := fieldOff(writtenField)

		lf := newLean("Money")
		lf.raw("/- ptttype (default build tags), layout by go/types for gc/amd64 -/\n")
		lf.nat("maxUsers", constInt(pt, "MAX_USERS"))
		lf.nat("recSize", recSize)
		lf.nat("moneyOffset", moneyOff)
		lf.nat("moneySize", moneySz)
		lf.nat("userLevelOffset", levelOff)
		lf.nat("userLevelSize", levelSz)
		lf.natList("boolOffsets", boolOffs)
		lf.nat("userIDOffset", idOff)
		lf.nat("userIDSize", idSz)
		lf.nat("lastLoginOffset", lastLoginOff)
		lf.nat("passwdHashOffset", pwOff)
		lf.nat("passwdHashSize", pwSz)
		lf.nat("emailOffset", emOff)
		lf.nat("emailSize", emSz)
		lf.raw("\n/- package ptt: the functions that write .PASSWDS and how: \"field\" (a cmbbs field writer), \"sync\" (whole record\n   through passwdSyncUpdate: Money re-synced from SHM first), \"direct\" (whole record through cmbbs.PasswdUpdate) -/\n")
		{
			var items []string
			for _, w := range writers {
				items = append(items, fmt.Sprintf("(%q, %q)", w.fn, w.kind))
			}
			lf.raw("def passwdWriters : List (String × String) := [" + strings.Join(items, ", ") + "]\n")
		}
		lf.raw("\n/- cache.userecRawAddToUHash: SHM arrays assigned in the `if !isOnfly || Cstrcmp(...) != 0` block -/\n")
		lf.nat("preAllocatedUsers", constInt(pc, "PRE_ALLOCATED_USERS"))
		lf.raw("def loaderCopies : List String := " + quote(loaderCopies) + "\n")
		lf.raw("def loaderCopiesUnderCooldown : List String := " + quote(loaderCopiesCd) + "\n")
		lf.raw("\n/- cache.passwdUpdateMoney -/\n")
		lf.raw(fmt.Sprintf("def writtenField : String := %q\n", writtenField))
		lf.nat("writtenOffset", writtenOff)
		lf.raw(fmt.Sprintf("def strideName : String := %q\n", strideName))
		lf.nat("stride", strideVal)
		lf.raw(fmt.Sprintf("def littleEndian : Bool := %v\n", order == "LittleEndian"))
		lf.nat("valueBits", valueBits)
		lf.raw("\n/- slot guards: the function rejects the slot when one of the comparisons `uid OP k` holds.\n" +
			"   codes: 0 \"<\", 1 \"<=\", 2 \">\", 3 \">=\", 4 \"==\", 5 \"!=\" -/\n")
		for _, g := range []struct{ def, fn string }{{"setGuard", "SetUMoney"}, {"deGuard", "DeUMoney"}, {"passwdGuard", "passwdUpdateMoney"}} {
			codes, text := moneyGuard(pc, g.fn)
			lf.raw(fmt.Sprintf("-- %s: %s\n", g.fn, text))
			lf.raw(fmt.Sprintf("def %s : List (Nat × Int) := [%s]\n", g.def, strings.Join(codes, ", ")))
		}
		lf.write(out)
	})
}
