package main

import (
	"fmt"
	"go/ast"
	"go/constant"
	"go/token"
	"strings"

	"golang.org/x/tools/go/packages"
)

// Gen/Comment.lean (C10): the data the comment path depends on:
//   ptttype/brdattr.go       BRD_NORECOMMEND, BRD_IPLOGRECMD, BRD_ALIGNEDCMT
//   ptttype/file_mode.go     FILE_MARKED, FILE_SOLVED
//   ptttype/comment_type.go  COMMENT_TYPE_RECOMMEND/BOO/COMMENT and the switch of CommentType.Bytes()
//                            (type value, colour argument of ansi.ANSIColor, glyph bytes)
//   ptttype/const.go         IDLEN, IPV4LEN, FNLEN
//   types/ansi               ESC_CHR
// MAX_RECOMMENDS and the FileHeaderRaw field offsets come from Gen/RecFile.lean (C05).

// cmConstString: the constant string value of an expression, if the type checker has one.
func cmConstString(p *packages.Package, e ast.Expr) (string, bool) {
	tv, ok := p.TypesInfo.Types[e]
	if !ok || tv.Value == nil || tv.Value.Kind() != constant.String {
		return "", false
	}
	return constant.StringVal(tv.Value), true
}

// cmMark reads `[]byte(ansi.ANSIColor("<colour>") + "<glyph>")`.
func cmMark(p *packages.Package, e ast.Expr) (colour, glyph string) {
	pos := p.Fset.Position(e.Pos())
	e = ast.Unparen(e)
	call, ok := e.(*ast.CallExpr)
	if !ok || len(call.Args) != 1 {
		fatal("CommentType.Bytes: unsupported return expression at %v", pos)
	}
	if tv, ok := p.TypesInfo.Types[call.Fun]; !ok || !tv.IsType() {
		fatal("CommentType.Bytes: return is not a conversion at %v", pos)
	}
	bin, ok := ast.Unparen(call.Args[0]).(*ast.BinaryExpr)
	if !ok || bin.Op != token.ADD {
		fatal("CommentType.Bytes: expected ansi.ANSIColor(..) + \"..\" at %v", pos)
	}
	cc, ok := ast.Unparen(bin.X).(*ast.CallExpr)
	if !ok || len(cc.Args) != 1 {
		fatal("CommentType.Bytes: expected a call on the left of + at %v", pos)
	}
	sel, ok := cc.Fun.(*ast.SelectorExpr)
	if !ok || sel.Sel.Name != "ANSIColor" {
		fatal("CommentType.Bytes: expected ansi.ANSIColor at %v", pos)
	}
	colour, ok = cmConstString(p, cc.Args[0])
	if !ok {
		fatal("CommentType.Bytes: non-constant colour at %v", pos)
	}
	glyph, ok = cmConstString(p, bin.Y)
	if !ok {
		fatal("CommentType.Bytes: non-constant glyph at %v", pos)
	}
	return colour, glyph
}

func cmNatList(bs string) string {
	parts := make([]string, len(bs))
	for i := 0; i < len(bs); i++ {
		parts[i] = fmt.Sprint(bs[i])
	}
	return "[" + strings.Join(parts, ", ") + "]"
}

func init() {
	register("Comment", func(l *loader, repo, out string) {
		pt := l.load("ptttype")
		an := l.load("types/ansi")
		lf := newLean("Comment")
		for _, c := range []string{"BRD_NORECOMMEND", "BRD_NOBOO", "BRD_IPLOGRECMD", "BRD_ALIGNEDCMT", "FILE_MARKED", "FILE_SOLVED",
			"COMMENT_TYPE_RECOMMEND", "COMMENT_TYPE_BOO", "COMMENT_TYPE_COMMENT", "COMMENT_TYPE_BASIC", "IDLEN", "IPV4LEN", "FNLEN"} {
			lf.nat(c, constInt(pt, c))
		}
		lf.nat("ESC", constInt(an, "ESC_CHR"))

		// the switch of func (c CommentType) Bytes() []byte
		var fn *ast.FuncDecl
		for _, f := range pt.Syntax {
			for _, d := range f.Decls {
				fd, ok := d.(*ast.FuncDecl)
				if !ok || fd.Recv == nil || fd.Name.Name != "Bytes" || len(fd.Recv.List) != 1 {
					continue
				}
				if id, ok := fd.Recv.List[0].Type.(*ast.Ident); ok && id.Name == "CommentType" {
					fn = fd
				}
			}
		}
		if fn == nil || fn.Body == nil || len(fn.Body.List) != 1 {
			fatal("ptttype: CommentType.Bytes not found or not a single switch")
		}
		sw, ok := fn.Body.List[0].(*ast.SwitchStmt)
		if !ok {
			fatal("ptttype: CommentType.Bytes is not a switch")
		}
		var rows []string
		sawDefault := false
		for _, st := range sw.Body.List {
			cc := st.(*ast.CaseClause)
			if len(cc.Body) != 1 {
				fatal("CommentType.Bytes: case body is not a single return at %v", pt.Fset.Position(cc.Pos()))
			}
			ret, ok := cc.Body[0].(*ast.ReturnStmt)
			if !ok || len(ret.Results) != 1 {
				fatal("CommentType.Bytes: case body is not a single return at %v", pt.Fset.Position(cc.Pos()))
			}
			if cc.List == nil {
				if id, ok := ret.Results[0].(*ast.Ident); !ok || id.Name != "nil" {
					fatal("CommentType.Bytes: default does not return nil")
				}
				sawDefault = true
				continue
			}
			colour, glyph := cmMark(pt, ret.Results[0])
			for _, ce := range cc.List {
				tv := pt.TypesInfo.Types[ce]
				if tv.Value == nil {
					fatal("CommentType.Bytes: non-constant case at %v", pt.Fset.Position(ce.Pos()))
				}
				v, _ := constant.Int64Val(constant.ToInt(tv.Value))
				rows = append(rows, fmt.Sprintf("  (%d, %s, %s)", v, cmNatList(colour), cmNatList(glyph)))
			}
		}
		if !sawDefault {
			fatal("CommentType.Bytes: no default clause")
		}
		lf.raw("\n/-- (comment type, argument of ansi.ANSIColor, glyph) per case of CommentType.Bytes(); other types give nil -/\n")
		lf.raw("def typeMarks : List (Nat × List Nat × List Nat) := [\n" + strings.Join(rows, ",\n") + "]\n")
		lf.write(out)
	})
}
