package main

import (
	"fmt"
	"go/ast"
	"go/types"
	"strings"

	"golang.org/x/tools/go/packages"
)

// Gen/Fav.lean: the data of the .fav format (ptt/fav), C19:
// version word, type codes, limits, the C struct sizes the entries are padded
// to, the widths encoding/binary gives the payload structs, and the order in
// which WriteFavrec / ReadFavrec transfer the three header counters.
func init() {
	register("Fav", func(l *loader, repo, out string) {
		p := l.load("ptt/fav")
		pt := l.load("ptttype")
		lf := newLean("Fav")
		for _, c := range []string{"FAV_VERSION", "MAX_FAV", "MAX_LINE", "MAX_FOLDER",
			"FAVT_BOARD", "FAVT_FOLDER", "FAVT_LINE", "FAVH_FAV",
			"SIZE_OF_FAV_BOARD", "SIZE_OF_FAV_LINE"} {
			lf.nat(c, constInt(p, c))
		}
		lf.nat("MAX_BOARD", constInt(pt, "MAX_BOARD"))
		lf.raw("\n")
		// widths of the fields as encoding/binary writes them (no padding)
		lf.natList("favBoardFields", favWireFields(p, "FavBoard", nil))
		lf.natList("favLineFields", favWireFields(p, "FavLine", nil))
		// of a folder only Fid and Title are transferred (ThisFolder is a pointer)
		lf.natList("favFolderFields", favWireFields(p, "FavFolder", []string{"Fid", "Title"}))
		// the counters, in the order the code transfers them before the entry loop
		lf.raw(favStrList("writeHeader", favHeaderOrder(p, "WriteFavrec", "BinaryWrite")))
		lf.raw(favStrList("readHeader", favHeaderOrder(p, "ReadFavrec", "BinaryRead")))
		// widths of the counters in that order
		lf.natList("headerFieldWidths", favWireFields(p, "FavRaw", []string{"NBoards", "NLines", "NFolders"}))
		lf.write(out)
	})
}

func favStrList(name string, vals []string) string {
	q := make([]string, len(vals))
	for i, v := range vals {
		q[i] = fmt.Sprintf("%q", v)
	}
	return fmt.Sprintf("def %s : List String := [%s]\n\n", name, strings.Join(q, ", "))
}

func favWireWidth(t types.Type, where string) int64 {
	switch u := t.Underlying().(type) {
	case *types.Basic:
		switch u.Kind() {
		case types.Bool, types.Int8, types.Uint8:
			return 1
		case types.Int16, types.Uint16:
			return 2
		case types.Int32, types.Uint32, types.Float32:
			return 4
		case types.Int64, types.Uint64, types.Float64:
			return 8
		}
	case *types.Array:
		return u.Len() * favWireWidth(u.Elem(), where)
	case *types.Struct:
		var s int64
		for i := 0; i < u.NumFields(); i++ {
			s += favWireWidth(u.Field(i).Type(), where+"."+u.Field(i).Name())
		}
		return s
	}
	fatal("fav: %s: type %s has no fixed serialised width", where, t)
	return 0
}

// favWireFields: serialised widths of the named fields (all fields when only is nil) of a struct type.
func favWireFields(p *packages.Package, name string, only []string) []string {
	st, ok := lookup(p, name).Type().Underlying().(*types.Struct)
	if !ok {
		fatal("fav: %s is not a struct", name)
	}
	var out []string
	if only == nil {
		for i := 0; i < st.NumFields(); i++ {
			out = append(out, fmt.Sprint(favWireWidth(st.Field(i).Type(), name+"."+st.Field(i).Name())))
		}
		return out
	}
	for _, want := range only {
		found := false
		for i := 0; i < st.NumFields(); i++ {
			if st.Field(i).Name() == want {
				out = append(out, fmt.Sprint(favWireWidth(st.Field(i).Type(), name+"."+want)))
				found = true
			}
		}
		if !found {
			fatal("fav: %s has no field %s", name, want)
		}
	}
	return out
}

// favHeaderOrder: the field names X of the calls types.<call>(file, order, &recv.X)
// that precede the first for-statement of the function.
func favHeaderOrder(p *packages.Package, fn, call string) []string {
	var body *ast.BlockStmt
	for _, f := range p.Syntax {
		for _, d := range f.Decls {
			if fd, ok := d.(*ast.FuncDecl); ok && fd.Name.Name == fn && fd.Body != nil {
				body = fd.Body
			}
		}
	}
	if body == nil {
		fatal("fav: no function %s", fn)
	}
	var out []string
	for _, st := range body.List {
		if _, isFor := st.(*ast.ForStmt); isFor {
			break
		}
		ast.Inspect(st, func(n ast.Node) bool {
			ce, ok := n.(*ast.CallExpr)
			if !ok {
				return true
			}
			sel, ok := ce.Fun.(*ast.SelectorExpr)
			if !ok || sel.Sel.Name != call || len(ce.Args) != 3 {
				return true
			}
			if ue, ok := ce.Args[2].(*ast.UnaryExpr); ok {
				if fs, ok := ue.X.(*ast.SelectorExpr); ok {
					out = append(out, fs.Sel.Name)
				}
			}
			return true
		})
	}
	if len(out) == 0 {
		fatal("fav: %s: no %s calls before the entry loop", fn, call)
	}
	return out
}
