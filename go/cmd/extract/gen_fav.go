package main

import (
	"fmt"
	"go/ast"
	"go/constant"
	"go/token"
	"go/types"
	"strings"

	"golang.org/x/tools/go/packages"
)

// Gen/Fav.lean: the data of the .fav format (ptt/fav), C19:
// version word, type codes, limits, the C struct sizes the entries are padded
// to, the widths encoding/binary gives the payload structs, and the order in
// which WriteFavrec / ReadFavrec transfer the three header counters.
func init() {
	register("Fav", func(l *loader, repo, out string) {
		p := l.load("ptt/fav")
		pt := l.load("ptttype")
		lf := newLean("Fav")
		for _, c := range []string{"FAV_VERSION", "MAX_FAV", "MAX_LINE", "MAX_FOLDER",
			"FAVT_BOARD", "FAVT_FOLDER", "FAVT_LINE", "FAVH_FAV",
			"SIZE_OF_FAV_BOARD", "SIZE_OF_FAV_LINE"} {
			lf.nat(c, constInt(p, c))
		}
		lf.nat("MAX_BOARD", constInt(pt, "MAX_BOARD"))
		lf.raw("\n")
		// widths of the fields as encoding/binary writes them (no padding)
		lf.natList("favBoardFields", favWireFields(p, "FavBoard", nil))
		lf.natList("favLineFields", favWireFields(p, "FavLine", nil))
		// of a folder only Fid and Title are transferred (ThisFolder is a pointer)
		lf.natList("favFolderFields", favWireFields(p, "FavFolder", []string{"Fid", "Title"}))
		// the counters, in the order the code transfers them before the entry loop
		lf.raw(favStrList("writeHeader", favHeaderOrder(p, "WriteFavrec", "BinaryWrite")))
		lf.raw(favStrList("readHeader", favHeaderOrder(p, "ReadFavrec", "BinaryRead")))
		// widths of the counters in that order
		lf.natList("headerFieldWidths", favWireFields(p, "FavRaw", []string{"NBoards", "NLines", "NFolders"}))
		// the temporary file of the two savers: the name renamed over .fav must be the one that was
		// written, and its defining expression must contain a call of the random-suffix function
		// (types.GetRandom), so that overlapping savers never share a temporary file.
		pp := l.load("ptt")
		for _, fn := range []struct {
			pkg        *packages.Package
			name, lean string
		}{{pp, "WriteFavorites", "writeFavorites"}, {p, "Save", "save"}} {
			random, writes, expr := favTmpName(fn.pkg, fn.name)
			lf.raw(fmt.Sprintf("def %sTmpRandom : Bool := %v\n", fn.lean, random))
			lf.raw(fmt.Sprintf("def %sWritesTmp : Bool := %v\n", fn.lean, writes))
			lf.raw(fmt.Sprintf("def %sTmpExpr : String := %q\n\n", fn.lean, expr))
		}
		// how much of the file GetFavorites hands back: io.ReadAll on the opened file (no limit) or
		// through io.LimitReader(file, N) with a constant N
		lf.raw(fmt.Sprintf("/-- %s -/\ndef getFavoritesReadLimit : Option Nat := %s\n\n", "none: the whole file is read; some n: at most n bytes are read", favReadLimit(pp, "GetFavorites")))
		// does types.BinaryWrite return the error of binary.Write to its caller?
		lf.raw(fmt.Sprintf("def binaryWriteReturnsError : Bool := %v\n", favReturnsCallError(l.load("types"), "BinaryWrite", "binary", "Write")))
		lf.write(out)
	})
}

// favReturnsCallError: fn either says `return pkg.call(...)`, or assigns (with `=`) the call's result to
// its named error result and ends with `return` / `return <that result>`. A `:=` (a new, shadowing variable)
// or a dropped result does not count.
func favReturnsCallError(p *packages.Package, fn, pkg, call string) bool {
	var fd *ast.FuncDecl
	for _, f := range p.Syntax {
		for _, d := range f.Decls {
			if x, ok := d.(*ast.FuncDecl); ok && x.Name.Name == fn && x.Body != nil && x.Recv == nil {
				fd = x
			}
		}
	}
	if fd == nil {
		fatal("fav: no function %s in %s", fn, p.PkgPath)
	}
	var named types.Object
	if fd.Type.Results != nil {
		for _, r := range fd.Type.Results.List {
			for _, n := range r.Names {
				if o := p.TypesInfo.Defs[n]; o != nil && o.Type().String() == "error" {
					named = o
				}
			}
		}
	}
	isCall := func(e ast.Expr) bool {
		ce, ok := e.(*ast.CallExpr)
		if !ok {
			return false
		}
		sel, ok := ce.Fun.(*ast.SelectorExpr)
		if !ok || sel.Sel.Name != call {
			return false
		}
		x, ok := sel.X.(*ast.Ident)
		return ok && x.Name == pkg
	}
	isNamed := func(e ast.Expr) bool {
		id, ok := e.(*ast.Ident)
		return ok && named != nil && p.TypesInfo.Uses[id] == named
	}
	direct, assigned := false, false
	// top-level statements of the body only (the deferred recover handler is a function literal)
	for _, st := range fd.Body.List {
		switch v := st.(type) {
		case *ast.ReturnStmt:
			if len(v.Results) == 1 && isCall(v.Results[0]) {
				direct = true
			}
		case *ast.AssignStmt:
			if v.Tok == token.ASSIGN && len(v.Lhs) == 1 && len(v.Rhs) == 1 && isCall(v.Rhs[0]) && isNamed(v.Lhs[0]) {
				assigned = true
			}
		}
	}
	if direct {
		return true
	}
	if !assigned || len(fd.Body.List) == 0 {
		return false
	}
	last, ok := fd.Body.List[len(fd.Body.List)-1].(*ast.ReturnStmt)
	if !ok {
		return false
	}
	return len(last.Results) == 0 || (len(last.Results) == 1 && isNamed(last.Results[0]))
}

// favReadLimit: the limit on the bytes read by the io.ReadAll / os.ReadFile call of fn, as a Lean term.
// An unrecognised reader is reported as `some 0` (nothing is known to be handed back).
func favReadLimit(p *packages.Package, fn string) string {
	var body *ast.BlockStmt
	for _, f := range p.Syntax {
		for _, d := range f.Decls {
			if fd, ok := d.(*ast.FuncDecl); ok && fd.Name.Name == fn && fd.Body != nil {
				body = fd.Body
			}
		}
	}
	if body == nil {
		fatal("fav: no function %s in %s", fn, p.PkgPath)
	}
	isSel := func(e ast.Expr, pkg, name string) bool {
		sel, ok := e.(*ast.SelectorExpr)
		if !ok || sel.Sel.Name != name {
			return false
		}
		x, ok := sel.X.(*ast.Ident)
		return ok && x.Name == pkg
	}
	result := ""
	n := 0
	ast.Inspect(body, func(m ast.Node) bool {
		ce, ok := m.(*ast.CallExpr)
		if !ok {
			return true
		}
		switch {
		case isSel(ce.Fun, "os", "ReadFile") && len(ce.Args) == 1:
			n++
			result = "none"
		case (isSel(ce.Fun, "io", "ReadAll") || isSel(ce.Fun, "ioutil", "ReadAll")) && len(ce.Args) == 1:
			n++
			switch a := ast.Unparen(ce.Args[0]).(type) {
			case *ast.Ident:
				// must be the *os.File itself
				if t := p.TypesInfo.TypeOf(a); t != nil && t.String() == "*os.File" {
					result = "none"
				} else {
					result = "some 0"
				}
			case *ast.CallExpr:
				result = "some 0"
				if isSel(a.Fun, "io", "LimitReader") && len(a.Args) == 2 {
					if tv, ok := p.TypesInfo.Types[a.Args[1]]; ok && tv.Value != nil {
						if v, ok := constant.Int64Val(constant.ToInt(tv.Value)); ok && v >= 0 {
							if t := p.TypesInfo.TypeOf(a.Args[0]); t != nil && t.String() == "*os.File" {
								result = fmt.Sprintf("some %d", v)
							}
						}
					}
				}
			default:
				result = "some 0"
			}
		}
		return true
	})
	if n != 1 {
		return "some 0"
	}
	return result
}

func favStrList(name string, vals []string) string {
	q := make([]string, len(vals))
	for i, v := range vals {
		q[i] = fmt.Sprintf("%q", v)
	}
	return fmt.Sprintf("def %s : List String := [%s]\n\n", name, strings.Join(q, ", "))
}

func favWireWidth(t types.Type, where string) int64 {
	switch u := t.Underlying().(type) {
	case *types.Basic:
		switch u.Kind() {
		case types.Bool, types.Int8, types.Uint8:
			return 1
		case types.Int16, types.Uint16:
			return 2
		case types.Int32, types.Uint32, types.Float32:
			return 4
		case types.Int64, types.Uint64, types.Float64:
			return 8
		}
	case *types.Array:
		return u.Len() * favWireWidth(u.Elem(), where)
	case *types.Struct:
		var s int64
		for i := 0; i < u.NumFields(); i++ {
			s += favWireWidth(u.Field(i).Type(), where+"."+u.Field(i).Name())
		}
		return s
	}
	fatal("fav: %s: type %s has no fixed serialised width", where, t)
	return 0
}

// favWireFields: serialised widths of the named fields (all fields when only is nil) of a struct type.
func favWireFields(p *packages.Package, name string, only []string) []string {
	st, ok := lookup(p, name).Type().Underlying().(*types.Struct)
	if !ok {
		fatal("fav: %s is not a struct", name)
	}
	var out []string
	if only == nil {
		for i := 0; i < st.NumFields(); i++ {
			out = append(out, fmt.Sprint(favWireWidth(st.Field(i).Type(), name+"."+st.Field(i).Name())))
		}
		return out
	}
	for _, want := range only {
		found := false
		for i := 0; i < st.NumFields(); i++ {
			if st.Field(i).Name() == want {
				out = append(out, fmt.Sprint(favWireWidth(st.Field(i).Type(), name+"."+want)))
				found = true
			}
		}
		if !found {
			fatal("fav: %s has no field %s", name, want)
		}
	}
	return out
}

// favHeaderOrder: the field names X of the calls types.<call>(file, order, &recv.X)
// that precede the first for-statement of the function.
func favHeaderOrder(p *packages.Package, fn, call string) []string {
	var body *ast.BlockStmt
	for _, f := range p.Syntax {
		for _, d := range f.Decls {
			if fd, ok := d.(*ast.FuncDecl); ok && fd.Name.Name == fn && fd.Body != nil {
				body = fd.Body
			}
		}
	}
	if body == nil {
		fatal("fav: no function %s", fn)
	}
	var out []string
	for _, st := range body.List {
		if _, isFor := st.(*ast.ForStmt); isFor {
			break
		}
		ast.Inspect(st, func(n ast.Node) bool {
			ce, ok := n.(*ast.CallExpr)
			if !ok {
				return true
			}
			sel, ok := ce.Fun.(*ast.SelectorExpr)
			if !ok || sel.Sel.Name != call || len(ce.Args) != 3 {
				return true
			}
			if ue, ok := ce.Args[2].(*ast.UnaryExpr); ok {
				if fs, ok := ue.X.(*ast.SelectorExpr); ok {
					out = append(out, fs.Sel.Name)
				}
			}
			return true
		})
	}
	if len(out) == 0 {
		fatal("fav: %s: no %s calls before the entry loop", fn, call)
	}
	return out
}

// favTmpName inspects a saver (function or method fn): the first argument of its os.Rename call is the
// temporary name. random: the expressions defining that variable (transitively through local variables)
// contain a call of GetRandom. writes: the same variable is what os.Create / os.WriteFile / os.OpenFile opens.
// expr: the defining expressions, for the record.
func favTmpName(p *packages.Package, fn string) (random, writes bool, expr string) {
	var body *ast.BlockStmt
	for _, f := range p.Syntax {
		for _, d := range f.Decls {
			if fd, ok := d.(*ast.FuncDecl); ok && fd.Name.Name == fn && fd.Body != nil {
				body = fd.Body
			}
		}
	}
	if body == nil {
		fatal("fav: no function %s in %s", fn, p.PkgPath)
	}
	isOS := func(ce *ast.CallExpr, names ...string) bool {
		sel, ok := ce.Fun.(*ast.SelectorExpr)
		if !ok {
			return false
		}
		x, ok := sel.X.(*ast.Ident)
		if !ok || x.Name != "os" {
			return false
		}
		for _, n := range names {
			if sel.Sel.Name == n {
				return true
			}
		}
		return false
	}
	var tmpVar string
	nRename := 0
	ast.Inspect(body, func(n ast.Node) bool {
		if ce, ok := n.(*ast.CallExpr); ok && isOS(ce, "Rename") && len(ce.Args) == 2 {
			nRename++
			if id, ok := ce.Args[0].(*ast.Ident); ok {
				tmpVar = id.Name
			}
		}
		return true
	})
	if nRename != 1 || tmpVar == "" {
		return false, false, fmt.Sprintf("(%d os.Rename calls, source not a variable)", nRename)
	}
	ast.Inspect(body, func(n ast.Node) bool {
		if ce, ok := n.(*ast.CallExpr); ok && isOS(ce, "Create", "WriteFile", "OpenFile") && len(ce.Args) >= 1 {
			if id, ok := ce.Args[0].(*ast.Ident); ok && id.Name == tmpVar {
				writes = true
			}
		}
		return true
	})
	vars := map[string]bool{tmpVar: true}
	var exprs []string
	seen := map[ast.Node]bool{}
	for changed := true; changed; {
		changed = false
		ast.Inspect(body, func(n ast.Node) bool {
			as, ok := n.(*ast.AssignStmt)
			if !ok || seen[as] {
				return true
			}
			hit := false
			for _, l := range as.Lhs {
				if id, ok := l.(*ast.Ident); ok && vars[id.Name] {
					hit = true
				}
			}
			if !hit {
				return true
			}
			seen[as] = true
			changed = true
			for _, r := range as.Rhs {
				exprs = append(exprs, types.ExprString(r))
				ast.Inspect(r, func(m ast.Node) bool {
					switch v := m.(type) {
					case *ast.CallExpr:
						if sel, ok := v.Fun.(*ast.SelectorExpr); ok && sel.Sel.Name == "GetRandom" {
							random = true
						}
					case *ast.Ident:
						if obj := p.TypesInfo.Uses[v]; obj != nil {
							if _, isVar := obj.(*types.Var); isVar && obj.Parent() != p.Types.Scope() {
								vars[v.Name] = true
							}
						}
					}
					return true
				})
			}
			return true
		})
	}
	return random, writes, strings.Join(exprs, " ; ")
}
