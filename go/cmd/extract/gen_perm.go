package main

// C07 (board read access).
//
// Gen/Perm.lean: every PERM_* (type PERM), BRD_* (type BrdAttr) and NBRD_* (type BoardStatAttr) constant of
// package ptttype with the value the type checker computed, plus MAX_BOARD / MAX_USERS / MAX_BMs and the
// compile-time switch USE_REAL_DESC_FOR_HIDDEN_BOARD_IN_MYFAV.
//
// Gen/ReadEntryPoints.lean: what the SOURCE of package ptt says about the order of the permission test.
//
//   readers  : for each content-returning entry point the list of its TOP-LEVEL statements, in source order, as
//              (kind, a, b, c, ds):
//                ("getbcache", arg, "", "", [])          v, err := cache.GetBCache(arg)   arg = "param:<name>" | text
//                ("iferr", "", "", rets, [])             if err != nil { ...; return rets }
//                ("permstat", "boardPermStat", ok, "", []) s := boardPermStat(user, uid, board, bid)
//                                                        ok = "args-ok" iff the arguments are the function's first two
//                                                        parameters, the variable bound by GetBCache and GetBCache's argument
//                ("permtest", op, const, rets, [])       if s OP ptttype.<const> { ...; return rets }   (s = the permstat result)
//                ("if", cond, "", rets, [])              any other if without else
//                ("call", callee, "", "", [])            any other statement whose expression is a call
//                ("assign", "", "", "", [])              an assignment without a call
//                ("return", callee, "", rets, [])        return (callee = the called function when the result is one call)
//                ("stmt", gotype, "", "", [])            anything else
//              rets: the results of the if-body when it is exactly one return statement: the error's name when all
//              other results are zero values ("ErrNotPermitted", "err"), else the whole list ("false,nil")
//   listings : for each listing / summary function the per-board helper functions it calls, first appearance order
//   statFns  : the same statement list for each per-board stat function, with
//                ("groupop", "groupOp", ok, "", [])      g := groupOp(user, uid, board)
//                ("filter", "", "", rets, ds)            an if whose condition is a disjunction; ds = canonical disjuncts:
//                                                        nameEmpty | groupOrSymbolic | notGroupOrSymbolic | notPermOrGroupOp
//                                                        | keywords | bidNegative | notPrefix | ?<source text>
//                ("newstat", "newBoardStat", ok, "", []) x = newBoardStat(bidInCache, <permstat result>, board, <groupop result>)
//
// Variable names are resolved through go/types objects, so renaming a local does not change the output.

import (
	"fmt"
	"go/ast"
	"go/constant"
	"go/token"
	"go/types"
	"sort"
	"strings"

	"golang.org/x/tools/go/packages"
)

func init() {
	register("Perm", genPerm)
	register("ReadEntryPoints", genReadEntryPoints)
}

func genPerm(l *loader, repo, out string) {
	p := l.load("ptttype")
	lf := newLean("Perm")
	scope := p.Types.Scope()
	names := scope.Names()
	sort.Strings(names)
	groups := []struct{ prefix, typ, list string }{
		{"PERM_", "PERM", "permAll"},
		{"BRD_", "BrdAttr", "brdAll"},
		{"NBRD_", "BoardStatAttr", "nbrdAll"},
	}
	for _, g := range groups {
		var pairs []string
		fmt.Fprintf(&lf.b, "/- ptttype constants of type %s -/\n", g.typ)
		for _, n := range names {
			if !strings.HasPrefix(n, g.prefix) {
				continue
			}
			c, ok := scope.Lookup(n).(*types.Const)
			if !ok {
				continue
			}
			nt, ok := c.Type().(*types.Named)
			if !ok || nt.Obj().Name() != g.typ {
				continue
			}
			v := constant.ToInt(c.Val())
			if v.Kind() != constant.Int {
				fatal("ptttype.%s is not an integer constant", n)
			}
			lf.nat(n, v.ExactString())
			pairs = append(pairs, fmt.Sprintf("(\"%s\", %s)", n, v.ExactString()))
		}
		if len(pairs) == 0 {
			fatal("ptttype: no %s* constants of type %s", g.prefix, g.typ)
		}
		fmt.Fprintf(&lf.b, "def %s : List (String × Nat) := [\n  %s]\n\n", g.list, strings.Join(pairs, ",\n  "))
	}
	lf.nat("MAX_BOARD", constInt(p, "MAX_BOARD"))
	lf.nat("MAX_USERS", constInt(p, "MAX_USERS"))
	lf.nat("MAX_BMs", constInt(p, "MAX_BMs"))
	// a var, not a const, in the source: read its initialiser
	init := varOrConstBool(p, "USE_REAL_DESC_FOR_HIDDEN_BOARD_IN_MYFAV")
	fmt.Fprintf(&lf.b, "def USE_REAL_DESC_FOR_HIDDEN_BOARD_IN_MYFAV : Bool := %v\n", init)
	lf.write(out)
}

func varOrConstBool(p *packages.Package, name string) bool {
	o := lookup(p, name)
	if c, ok := o.(*types.Const); ok {
		return constant.BoolVal(c.Val())
	}
	e := varInit(p, name)
	tv, ok := p.TypesInfo.Types[e]
	if !ok || tv.Value == nil || tv.Value.Kind() != constant.Bool {
		fatal("%s.%s: initialiser is not a boolean constant", p.PkgPath, name)
	}
	return constant.BoolVal(tv.Value)
}

// ---- entry points -------------------------------------------------------------------------------

type repStep struct {
	kind, a, b, c string
	ds            []string
}

type repCtx struct {
	p         *packages.Package
	fd        *ast.FuncDecl
	params    []types.Object
	boardVar  types.Object // bound by cache.GetBCache / &cache.Shm.Shm.BCache[..]
	bcacheArg types.Object
	statVar   types.Object
	groupVar  types.Object
}

func repFuncDecl(p *packages.Package, name string) *ast.FuncDecl {
	for _, f := range p.Syntax {
		for _, d := range f.Decls {
			if fd, ok := d.(*ast.FuncDecl); ok && fd.Recv == nil && fd.Name.Name == name && fd.Body != nil {
				return fd
			}
		}
	}
	fatal("%s: no function %s", p.PkgPath, name)
	return nil
}

func repCallee(e ast.Expr) string {
	call, ok := ast.Unparen(e).(*ast.CallExpr)
	if !ok {
		return ""
	}
	switch f := call.Fun.(type) {
	case *ast.Ident:
		return f.Name
	case *ast.SelectorExpr:
		if x, ok := f.X.(*ast.Ident); ok {
			return x.Name + "." + f.Sel.Name
		}
		return "(" + types.ExprString(f.X) + ")." + f.Sel.Name
	}
	return types.ExprString(call.Fun)
}

func (c *repCtx) obj(e ast.Expr) types.Object {
	id, ok := ast.Unparen(e).(*ast.Ident)
	if !ok {
		return nil
	}
	if o := c.p.TypesInfo.Uses[id]; o != nil {
		return o
	}
	return c.p.TypesInfo.Defs[id]
}

func (c *repCtx) paramIndex(o types.Object) int {
	for i, p := range c.params {
		if p == o && o != nil {
			return i
		}
	}
	return -1
}

func (c *repCtx) rets(body *ast.BlockStmt) string {
	// only a body that is exactly one return statement is read as a guard
	if len(body.List) != 1 {
		if len(body.List) > 0 {
			if _, ok := body.List[len(body.List)-1].(*ast.ReturnStmt); ok {
				return "<block-then-return>"
			}
		}
		return "<no-return>"
	}
	r, ok := body.List[0].(*ast.ReturnStmt)
	if !ok {
		return "<no-return>"
	}
	return c.retText(r)
}

// retText: when every result but the last is a zero value and the last is a named error, just that name
// ("ErrNotPermitted", "err"); otherwise the full result list.
func (c *repCtx) retText(r *ast.ReturnStmt) string {
	var out []string
	for _, e := range r.Results {
		out = append(out, types.ExprString(e))
	}
	if len(out) == 0 {
		return "<naked>"
	}
	n := len(out)
	last := ast.Unparen(r.Results[n-1])
	isErr := false
	if t := c.p.TypesInfo.TypeOf(last); t != nil && t.String() == "error" {
		switch last.(type) {
		case *ast.Ident, *ast.SelectorExpr:
			isErr = out[n-1] != "nil"
		}
	}
	if isErr {
		zeros := true
		for _, o := range out[:n-1] {
			switch o {
			case "nil", "false", "0", "-1", "\"\"":
			default:
				zeros = false
			}
		}
		if zeros {
			return out[n-1]
		}
	}
	return strings.Join(out, ",")
}

func (c *repCtx) constName(e ast.Expr) (string, bool) {
	e = ast.Unparen(e)
	tv, ok := c.p.TypesInfo.Types[e]
	if !ok || tv.Value == nil {
		return "", false
	}
	switch x := e.(type) {
	case *ast.SelectorExpr:
		return x.Sel.Name, true
	case *ast.Ident:
		return x.Name, true
	}
	return tv.Value.ExactString(), true
}

func (c *repCtx) constVal(e ast.Expr) (int64, bool) {
	tv, ok := c.p.TypesInfo.Types[ast.Unparen(e)]
	if !ok || tv.Value == nil {
		return 0, false
	}
	v := constant.ToInt(tv.Value)
	if v.Kind() != constant.Int {
		return 0, false
	}
	i, ok := constant.Int64Val(v)
	return i, ok
}

func flattenOr(e ast.Expr, out *[]ast.Expr) {
	e = ast.Unparen(e)
	if b, ok := e.(*ast.BinaryExpr); ok && b.Op == token.LOR {
		flattenOr(b.X, out)
		flattenOr(b.Y, out)
		return
	}
	*out = append(*out, e)
}

func mentions(p *packages.Package, e ast.Node, o types.Object) bool {
	if o == nil {
		return false
	}
	found := false
	ast.Inspect(e, func(n ast.Node) bool {
		if id, ok := n.(*ast.Ident); ok && p.TypesInfo.Uses[id] == o {
			found = true
		}
		return !found
	})
	return found
}

func sliceBase(e ast.Expr) ast.Expr {
	if s, ok := ast.Unparen(e).(*ast.SliceExpr); ok {
		return s.X
	}
	return e
}

func isSel(e ast.Expr, field string) bool {
	s, ok := ast.Unparen(e).(*ast.SelectorExpr)
	return ok && s.Sel.Name == field
}

// canonical reading of one disjunct of a stat function's filter
func (c *repCtx) disjunct(e ast.Expr, groupSym int64) string {
	e = ast.Unparen(e)
	raw := "?" + types.ExprString(e)
	switch x := e.(type) {
	case *ast.BinaryExpr:
		// board.Brdname[0] == 0
		if x.Op == token.EQL {
			if ix, ok := ast.Unparen(x.X).(*ast.IndexExpr); ok && isSel(ix.X, "Brdname") {
				i, ok1 := c.constVal(ix.Index)
				v, ok2 := c.constVal(x.Y)
				if ok1 && ok2 && i == 0 && v == 0 {
					return "nameEmpty"
				}
			}
		}
		// board.BrdAttr&(GROUPBOARD|SYMBOLIC) != 0
		if x.Op == token.NEQ {
			if and, ok := ast.Unparen(x.X).(*ast.BinaryExpr); ok && and.Op == token.AND && isSel(and.X, "BrdAttr") {
				m, ok1 := c.constVal(and.Y)
				z, ok2 := c.constVal(x.Y)
				if ok1 && ok2 && m == groupSym && z == 0 {
					return "groupOrSymbolic"
				}
			}
		}
		// boardStat == nil
		if x.Op == token.EQL {
			if y, ok := ast.Unparen(x.Y).(*ast.Ident); ok && y.Name == "nil" {
				if _, ok := ast.Unparen(x.X).(*ast.Ident); ok {
					return "statNil"
				}
			}
		}
		// bidInCache < 0
		if x.Op == token.LSS {
			if z, ok := c.constVal(x.Y); ok && z == 0 {
				if _, ok := ast.Unparen(x.X).(*ast.Ident); ok {
					return "bidNegative"
				}
			}
		}
	case *ast.UnaryExpr:
		if x.Op != token.NOT {
			return raw
		}
		in := ast.Unparen(x.X)
		// !bid.IsValid()   (bid = a parameter)
		if call, ok := in.(*ast.CallExpr); ok && len(call.Args) == 0 {
			if s, ok := call.Fun.(*ast.SelectorExpr); ok && s.Sel.Name == "IsValid" && c.paramIndex(c.obj(s.X)) >= 0 {
				return "bidInvalid"
			}
		}
		// !board.BrdAttr.HasPerm(GROUPBOARD|SYMBOLIC)
		if call, ok := in.(*ast.CallExpr); ok {
			if s, ok := call.Fun.(*ast.SelectorExpr); ok && len(call.Args) == 1 && s.Sel.Name == "HasPerm" && isSel(s.X, "BrdAttr") {
				if m, ok := c.constVal(call.Args[0]); ok && m == groupSym {
					return "notGroupOrSymbolic"
				}
			}
			if repCallee(call) == "types.CstrCaseHasPrefix" && len(call.Args) == 2 && isSel(sliceBase(call.Args[0]), "Brdname") {
				return "notPrefix"
			}
		}
		// !((state != NBRD_INVALID) || isGroupOp)
		if or, ok := in.(*ast.BinaryExpr); ok && or.Op == token.LOR {
			if ne, ok := ast.Unparen(or.X).(*ast.BinaryExpr); ok && ne.Op == token.NEQ {
				name, isConst := c.constName(ne.Y)
				if c.statVar != nil && c.obj(ne.X) == c.statVar && isConst && name == "NBRD_INVALID" &&
					c.groupVar != nil && c.obj(or.Y) == c.groupVar {
					return "notPermOrGroupOp"
				}
			}
		}
	case *ast.CallExpr:
		if repCallee(x) == "keywordsNotInBoard" {
			return "keywords"
		}
	}
	return raw
}

func (c *repCtx) walk(stat bool) []repStep {
	p := c.p
	var groupSym int64 = -1
	if pt := p.Imports[modPath+"/ptttype"]; pt != nil {
		groupSym = constInt(pt, "BRD_GROUPBOARD") | constInt(pt, "BRD_SYMBOLIC")
	}
	var steps []repStep
	for _, st := range c.fd.Body.List {
		switch s := st.(type) {
		case *ast.AssignStmt:
			if len(s.Rhs) != 1 {
				steps = append(steps, repStep{kind: "stmt", a: "AssignStmt"})
				continue
			}
			callee := repCallee(s.Rhs[0])
			call, _ := ast.Unparen(s.Rhs[0]).(*ast.CallExpr)
			switch {
			case callee == "cache.GetBCache" && len(call.Args) == 1:
				arg := types.ExprString(call.Args[0])
				if o := c.obj(call.Args[0]); o != nil {
					c.bcacheArg = o
					if c.paramIndex(o) >= 0 {
						arg = "param:" + o.Name()
					}
				}
				c.boardVar = c.obj(s.Lhs[0])
				steps = append(steps, repStep{kind: "getbcache", a: arg})
			case callee == "boardPermStat" && len(call.Args) == 4:
				ok := "args-ok"
				if c.paramIndex(c.obj(call.Args[0])) != 0 || c.paramIndex(c.obj(call.Args[1])) != 1 ||
					c.boardVar == nil || c.obj(call.Args[2]) != c.boardVar {
					ok = "?" + types.ExprString(call)
				}
				if !stat && (c.bcacheArg == nil || c.obj(call.Args[3]) != c.bcacheArg) {
					ok = "?" + types.ExprString(call)
				}
				c.statVar = c.obj(s.Lhs[0])
				steps = append(steps, repStep{kind: "permstat", a: "boardPermStat", b: ok})
			case callee == "groupOp" && len(call.Args) == 3:
				ok := "args-ok"
				if c.paramIndex(c.obj(call.Args[0])) != 0 || c.paramIndex(c.obj(call.Args[1])) != 1 ||
					c.boardVar == nil || c.obj(call.Args[2]) != c.boardVar {
					ok = "?" + types.ExprString(call)
				}
				c.groupVar = c.obj(s.Lhs[0])
				steps = append(steps, repStep{kind: "groupop", a: "groupOp", b: ok})
			case callee == "newBoardStat" && len(call.Args) == 4:
				ok := "args-ok"
				if c.statVar == nil || c.obj(call.Args[1]) != c.statVar || c.boardVar == nil || c.obj(call.Args[2]) != c.boardVar ||
					c.groupVar == nil || c.obj(call.Args[3]) != c.groupVar {
					ok = "?" + types.ExprString(call)
				}
				steps = append(steps, repStep{kind: "newstat", a: "newBoardStat", b: ok})
			case callee != "":
				steps = append(steps, repStep{kind: "call", a: callee})
			default:
				// board := &cache.Shm.Shm.BCache[bidInCache] binds the board of a stat function
				if u, ok := ast.Unparen(s.Rhs[0]).(*ast.UnaryExpr); ok && u.Op == token.AND {
					if ix, ok := ast.Unparen(u.X).(*ast.IndexExpr); ok && isSel(ix.X, "BCache") {
						c.boardVar = c.obj(s.Lhs[0])
					}
				}
				steps = append(steps, repStep{kind: "assign"})
			}
		case *ast.ExprStmt:
			if callee := repCallee(s.X); callee != "" {
				steps = append(steps, repStep{kind: "call", a: callee})
			} else {
				steps = append(steps, repStep{kind: "stmt", a: "ExprStmt"})
			}
		case *ast.IfStmt:
			if s.Else != nil || s.Init != nil {
				steps = append(steps, repStep{kind: "stmt", a: "IfElse:" + types.ExprString(s.Cond)})
				continue
			}
			rets := c.rets(s.Body)
			cond := ast.Unparen(s.Cond)
			if b, ok := cond.(*ast.BinaryExpr); ok && b.Op == token.NEQ {
				if id, ok := ast.Unparen(b.X).(*ast.Ident); ok && id.Name == "err" {
					if y, ok := ast.Unparen(b.Y).(*ast.Ident); ok && y.Name == "nil" {
						steps = append(steps, repStep{kind: "iferr", c: rets})
						continue
					}
				}
			}
			if b, ok := cond.(*ast.BinaryExpr); ok && (b.Op == token.EQL || b.Op == token.NEQ) && c.statVar != nil {
				x, y := b.X, b.Y
				if c.obj(y) == c.statVar {
					x, y = y, x
				}
				if c.obj(x) == c.statVar {
					if name, ok := c.constName(y); ok {
						steps = append(steps, repStep{kind: "permtest", a: b.Op.String(), b: name, c: rets})
						continue
					}
				}
			}
			if stat {
				var ds []ast.Expr
				flattenOr(cond, &ds)
				var names []string
				for _, d := range ds {
					names = append(names, c.disjunct(d, groupSym))
				}
				// an if with a nested block that is not a plain return (the ResolveBoardGroup refresh) is a call, not a filter
				if rets == "<no-return>" {
					steps = append(steps, repStep{kind: "block", a: strings.Join(names, "|")})
					continue
				}
				steps = append(steps, repStep{kind: "filter", c: rets, ds: names})
				continue
			}
			steps = append(steps, repStep{kind: "if", a: types.ExprString(s.Cond), c: rets})
		case *ast.ReturnStmt:
			callee := ""
			if len(s.Results) == 1 {
				callee = repCallee(s.Results[0])
			}
			steps = append(steps, repStep{kind: "return", a: callee, c: c.retText(s)})
		default:
			steps = append(steps, repStep{kind: "stmt", a: fmt.Sprintf("%T", st)})
		}
	}
	return steps
}

func repWalk(p *packages.Package, name string, stat bool) []repStep {
	fd := repFuncDecl(p, name)
	c := &repCtx{p: p, fd: fd}
	if fd.Type.Params != nil {
		for _, f := range fd.Type.Params.List {
			for _, n := range f.Names {
				c.params = append(c.params, p.TypesInfo.Defs[n])
			}
		}
	}
	return c.walk(stat)
}

func leanStr(s string) string {
	s = strings.ReplaceAll(s, "\\", "\\\\")
	s = strings.ReplaceAll(s, "\"", "\\\"")
	s = strings.ReplaceAll(s, "\n", " ")
	s = strings.ReplaceAll(s, "\t", " ")
	return "\"" + s + "\""
}

func emitSteps(lf *leanFile, name string, fns []string, all map[string][]repStep) {
	fmt.Fprintf(&lf.b, "def %s : List (String × List (String × String × String × String × List String)) := [", name)
	for i, fn := range fns {
		if i > 0 {
			lf.raw(",")
		}
		fmt.Fprintf(&lf.b, "\n  (%s, [", leanStr(fn))
		for j, s := range all[fn] {
			if j > 0 {
				lf.raw(",")
			}
			var ds []string
			for _, d := range s.ds {
				ds = append(ds, leanStr(d))
			}
			fmt.Fprintf(&lf.b, "\n    (%s, %s, %s, %s, [%s])", leanStr(s.kind), leanStr(s.a), leanStr(s.b), leanStr(s.c), strings.Join(ds, ", "))
		}
		lf.raw("])")
	}
	lf.raw("]\n\n")
}

var (
	repReaders    = []string{"IsBoardValidUser", "LoadGeneralArticles", "LoadBottomArticles", "FindArticleStartIdx", "ReadPost", "ReadPostTemplate"}
	repListings   = []string{"LoadGeneralBoards", "LoadAutoCompleteBoards", "LoadBoardsByBids", "LoadHotBoards", "LoadFullClassBoards", "LoadClassBoards", "LoadBoardSummary", "LoadBoardDetail"}
	repSummaryFns = []string{"LoadBoardSummary", "LoadBoardDetail"}
	repStatFns    = []string{"loadGeneralBoardStat", "loadAutoCompleteBoardStat", "loadBoardStat", "loadHotBoardStat", "loadClassBoardStat"}
	repHelpers    = map[string]bool{"loadGeneralBoardStat": true, "loadAutoCompleteBoardStat": true, "loadBoardStat": true, "loadHotBoardStat": true,
		"loadClassBoardStat": true, "newBoardStat": true, "boardPermStat": true, "groupOp": true, "parseBoardSummary": true, "showBoardList": true}
)

func genReadEntryPoints(l *loader, repo, out string) {
	p := l.load("ptt")
	lf := newLean("ReadEntryPoints")
	all := map[string][]repStep{}
	for _, fn := range repReaders {
		all[fn] = repWalk(p, fn, false)
	}
	lf.raw("/- top-level statements of the content-returning entry points of package ptt, source order -/\n")
	emitSteps(lf, "readers", repReaders, all)

	lf.raw("/- helper functions called by each listing / summary function, first-appearance order -/\n")
	lf.raw("def listings : List (String × List String) := [")
	for i, fn := range repListings {
		fd := repFuncDecl(p, fn)
		var seen []string
		ast.Inspect(fd.Body, func(n ast.Node) bool {
			if call, ok := n.(*ast.CallExpr); ok {
				c := repCallee(call)
				if repHelpers[c] {
					dup := false
					for _, s := range seen {
						dup = dup || s == c
					}
					if !dup {
						seen = append(seen, c)
					}
				}
			}
			return true
		})
		if i > 0 {
			lf.raw(",")
		}
		var q []string
		for _, s := range seen {
			q = append(q, leanStr(s))
		}
		fmt.Fprintf(&lf.b, "\n  (%s, [%s])", leanStr(fn), strings.Join(q, ", "))
	}
	lf.raw("]\n\n")

	for _, fn := range repStatFns {
		all[fn] = repWalk(p, fn, true)
	}
	lf.raw("/- top-level statements of the per-board stat functions -/\n")
	emitSteps(lf, "statFns", repStatFns, all)
	for _, fn := range repSummaryFns {
		all[fn] = repWalk(p, fn, true)
	}
	lf.raw("/- top-level statements of the single-board summary / detail functions -/\n")
	emitSteps(lf, "summaryFns", repSummaryFns, all)

	// bbs.BBoardID.ToRaw: where does it compare the client-supplied name with the name of board <bid>, and under which
	// conditions?  Top-level statements as (kind, text):
	//   ("call", callee) | ("iferr", "") | ("namecheck", conditions enclosing the comparison joined by " && ")
	//   | ("if", cond) any other if | ("return", results) | ("stmt", gotype)
	pb := l.load("bbs")
	var toRaw [][2]string
	found := false
	for _, f := range pb.Syntax {
		for _, d := range f.Decls {
			fd, ok := d.(*ast.FuncDecl)
			if !ok || fd.Recv == nil || fd.Name.Name != "ToRaw" || fd.Body == nil || len(fd.Recv.List) != 1 {
				continue
			}
			if types.ExprString(fd.Recv.List[0].Type) != "BBoardID" {
				continue
			}
			found = true
			// isNameCmp: if types.Cstrcmp(<x>.Brdname[:], <y>) != 0 { return ..., <non-nil> }
			isNameCmp := func(x *ast.IfStmt) bool {
				b, ok := ast.Unparen(x.Cond).(*ast.BinaryExpr)
				if !ok || b.Op != token.NEQ || x.Init != nil {
					return false
				}
				call, ok := ast.Unparen(b.X).(*ast.CallExpr)
				if !ok || repCallee(call) != "types.Cstrcmp" || len(call.Args) != 2 {
					return false
				}
				if z, ok := ast.Unparen(b.Y).(*ast.BasicLit); !ok || z.Value != "0" {
					return false
				}
				if !isSel(sliceBase(call.Args[0]), "Brdname") && !isSel(sliceBase(call.Args[1]), "Brdname") {
					return false
				}
				if len(x.Body.List) != 1 {
					return false
				}
				r, ok := x.Body.List[0].(*ast.ReturnStmt)
				return ok && len(r.Results) > 0 && types.ExprString(r.Results[len(r.Results)-1]) != "nil"
			}
			// conditions enclosing the comparison inside a statement (nil: no comparison inside)
			var find func(st ast.Stmt, conds []string) ([]string, bool)
			find = func(st ast.Stmt, conds []string) ([]string, bool) {
				switch x := st.(type) {
				case *ast.IfStmt:
					if isNameCmp(x) {
						return conds, true
					}
					inner := append(append([]string{}, conds...), types.ExprString(x.Cond))
					for _, b := range x.Body.List {
						if c, ok := find(b, inner); ok {
							return c, true
						}
					}
					if x.Else != nil {
						if c, ok := find(x.Else, append(append([]string{}, conds...), "!("+types.ExprString(x.Cond)+")")); ok {
							return c, true
						}
					}
				case *ast.BlockStmt:
					for _, b := range x.List {
						if c, ok := find(b, conds); ok {
							return c, true
						}
					}
				}
				return nil, false
			}
			for _, st := range fd.Body.List {
				if conds, ok := find(st, nil); ok {
					// the header compared must come from cache.GetBCache inside the same statement (or the comparison is top-level)
					sawGet := false
					ast.Inspect(st, func(n ast.Node) bool {
						if c, ok := n.(*ast.CallExpr); ok && repCallee(c) == "cache.GetBCache" {
							sawGet = true
						}
						return true
					})
					if !sawGet {
						conds = append(conds, "<no GetBCache>")
					}
					toRaw = append(toRaw, [2]string{"namecheck", strings.Join(conds, " && ")})
					continue
				}
				switch x := st.(type) {
				case *ast.AssignStmt:
					if len(x.Rhs) == 1 && repCallee(x.Rhs[0]) != "" {
						toRaw = append(toRaw, [2]string{"call", repCallee(x.Rhs[0])})
					} else {
						toRaw = append(toRaw, [2]string{"stmt", "AssignStmt"})
					}
				case *ast.IfStmt:
					b, ok := ast.Unparen(x.Cond).(*ast.BinaryExpr)
					if ok && b.Op == token.NEQ && types.ExprString(b.X) == "err" && types.ExprString(b.Y) == "nil" && x.Else == nil && len(x.Body.List) == 1 {
						if r, ok := x.Body.List[0].(*ast.ReturnStmt); ok && len(r.Results) > 0 && types.ExprString(r.Results[len(r.Results)-1]) != "nil" {
							toRaw = append(toRaw, [2]string{"iferr", ""})
							continue
						}
					}
					toRaw = append(toRaw, [2]string{"if", types.ExprString(x.Cond)})
				case *ast.ReturnStmt:
					var rs []string
					for _, e := range x.Results {
						rs = append(rs, types.ExprString(e))
					}
					toRaw = append(toRaw, [2]string{"return", strings.Join(rs, ",")})
				default:
					toRaw = append(toRaw, [2]string{"stmt", fmt.Sprintf("%T", st)})
				}
			}
		}
	}
	if !found {
		fatal("bbs: no method BBoardID.ToRaw")
	}
	lf.raw("/- top-level statements of bbs.BBoardID.ToRaw; \"namecheck\" = the statement that refuses a name which is not the name of\n   board <bid>, with the conditions enclosing that comparison -/\n")
	lf.raw("def bboardIDToRaw : List (String × String) := [")
	for i, e := range toRaw {
		if i > 0 {
			lf.raw(",")
		}
		fmt.Fprintf(&lf.b, "\n  (%s, %s)", leanStr(e[0]), leanStr(e[1]))
	}
	lf.raw("]\n")
	genAccountFacts(l, p, lf)
	lf.write(out)
}

// ---- account loading and the moderator cache (C07, rounds 3) ------------------------------------------------------
//
//	adminPerm               the constant pwcuInitAdminPerm assigns to UserLevel
//	initCurrentUserSpecial  the special-casing of ptt.InitCurrentUser, in source order:
//	                        (subject, bytes compared with, function applied to the loaded record)
//	                        subject = "loaded"   the id of the record cmbbs.PasswdLoadUser returned
//	                                  "supplied" the id the caller passed in
//	                                  "?<text>"  anything else
//	                        a call of a same-package helper whose body holds the comparisons is read through, with the
//	                        helper's parameters replaced by the arguments of the call
//	parseBMListFreshArray   cache.ParseBMList starts from a freshly allocated array (&[MAX_BMs]UID{...})
func genAccountFacts(l *loader, p *packages.Package, lf *leanFile) {
	// adminPerm
	fd := repFuncDecl(p, "pwcuInitAdminPerm")
	admin := ""
	ast.Inspect(fd.Body, func(n ast.Node) bool {
		as, ok := n.(*ast.AssignStmt)
		if !ok || len(as.Lhs) != 1 || len(as.Rhs) != 1 || !isSel(as.Lhs[0], "UserLevel") {
			return true
		}
		if tv, ok := p.TypesInfo.Types[as.Rhs[0]]; ok && tv.Value != nil {
			admin = constant.ToInt(tv.Value).ExactString()
		}
		return true
	})
	if admin == "" {
		fatal("ptt.pwcuInitAdminPerm: no constant assignment to UserLevel")
	}
	lf.raw("\n/- ptt.pwcuInitAdminPerm: user.UserLevel = <this constant> -/\n")
	lf.nat("adminPerm", admin)

	// bytes of a constant string / []byte("...") variable of ptttype
	pt := p.Imports[modPath+"/ptttype"]
	strBytes := func(e ast.Expr) (string, bool) {
		e = ast.Unparen(e)
		if call, ok := e.(*ast.CallExpr); ok && len(call.Args) == 1 { // []byte(X)
			if tv, ok := p.TypesInfo.Types[call.Fun]; ok && tv.IsType() {
				e = ast.Unparen(call.Args[0])
			}
		}
		if tv, ok := p.TypesInfo.Types[e]; ok && tv.Value != nil && tv.Value.Kind() == constant.String {
			return strings.Join(bytesOf(constant.StringVal(tv.Value)), ", "), true
		}
		if sel, ok := e.(*ast.SelectorExpr); ok && pt != nil {
			if _, isVar := pt.Types.Scope().Lookup(sel.Sel.Name).(*types.Var); isVar {
				flat, _ := litInts(pt, varInit(pt, sel.Sel.Name))
				return strings.Join(flat, ", "), true
			}
		}
		return "", false
	}
	type special struct{ subject, bytes, action string }
	var specials []special
	var scan func(fd *ast.FuncDecl, subst map[types.Object]string, depth int)
	scan = func(fd *ast.FuncDecl, subst map[types.Object]string, depth int) {
		// variables bound by cmbbs.PasswdLoadUser are "the loaded record"
		loaded := map[types.Object]bool{}
		classify := func(e ast.Expr) string {
			e = ast.Unparen(sliceBase(e))
			if u, ok := e.(*ast.UnaryExpr); ok && u.Op == token.AND {
				e = ast.Unparen(u.X)
			}
			if sel, ok := e.(*ast.SelectorExpr); ok && sel.Sel.Name == "UserID" {
				if id, ok := ast.Unparen(sel.X).(*ast.Ident); ok {
					o := p.TypesInfo.Uses[id]
					if loaded[o] {
						return "loaded"
					}
					if v, ok := subst[o]; ok && v == "record" {
						return "loaded"
					}
				}
			}
			if id, ok := e.(*ast.Ident); ok {
				o := p.TypesInfo.Uses[id]
				if v, ok := subst[o]; ok {
					if v == "record" {
						return "?record"
					}
					return v
				}
			}
			return "?" + types.ExprString(e)
		}
		for _, st := range fd.Body.List {
			switch x := st.(type) {
			case *ast.AssignStmt:
				if len(x.Rhs) == 1 && repCallee(x.Rhs[0]) == "cmbbs.PasswdLoadUser" && len(x.Lhs) == 3 {
					if id, ok := x.Lhs[1].(*ast.Ident); ok {
						o := p.TypesInfo.Uses[id]
						if o == nil {
							o = p.TypesInfo.Defs[id]
						}
						loaded[o] = true
					}
				}
			case *ast.IfStmt:
				b, ok := ast.Unparen(x.Cond).(*ast.BinaryExpr)
				if !ok || b.Op != token.EQL {
					continue
				}
				call, ok := ast.Unparen(b.X).(*ast.CallExpr)
				if !ok || repCallee(call) != "types.Cstrcmp" || len(call.Args) != 2 {
					continue
				}
				bs, ok := strBytes(call.Args[1])
				if !ok {
					bs = ""
				}
				action := ""
				if len(x.Body.List) == 1 {
					if es, ok := x.Body.List[0].(*ast.ExprStmt); ok {
						action = repCallee(es.X)
					}
				}
				specials = append(specials, special{classify(call.Args[0]), bs, action})
			case *ast.ExprStmt:
				call, ok := x.X.(*ast.CallExpr)
				if !ok || depth > 0 {
					continue
				}
				id, ok := call.Fun.(*ast.Ident)
				if !ok {
					continue
				}
				var helper *ast.FuncDecl
				for _, f := range p.Syntax {
					for _, d := range f.Decls {
						if h, ok := d.(*ast.FuncDecl); ok && h.Recv == nil && h.Name.Name == id.Name && h.Body != nil {
							helper = h
						}
					}
				}
				if helper == nil || helper.Type.Params == nil {
					continue
				}
				sub := map[types.Object]string{}
				k := 0
				for _, f := range helper.Type.Params.List {
					for _, n := range f.Names {
						if k < len(call.Args) {
							arg := ast.Unparen(call.Args[k])
							v := classify(arg)
							if aid, ok := arg.(*ast.Ident); ok && loaded[p.TypesInfo.Uses[aid]] {
								v = "record"
							}
							sub[p.TypesInfo.Defs[n]] = v
						}
						k++
					}
				}
				scan(helper, sub, depth+1)
			}
		}
	}
	icu := repFuncDecl(p, "InitCurrentUser")
	top := map[types.Object]string{}
	if icu.Type.Params != nil {
		for _, f := range icu.Type.Params.List {
			for _, n := range f.Names {
				top[p.TypesInfo.Defs[n]] = "supplied"
			}
		}
	}
	scan(icu, top, 0)
	lf.raw("\n/- ptt.InitCurrentUser: (whose id is compared, the bytes it is compared with, what is applied to the loaded record) -/\n")
	lf.raw("def initCurrentUserSpecial : List (String × List Nat × String) := [")
	for i, sp := range specials {
		if i > 0 {
			lf.raw(",")
		}
		fmt.Fprintf(&lf.b, "\n  (%s, [%s], %s)", leanStr(sp.subject), sp.bytes, leanStr(sp.action))
	}
	lf.raw("]\n")

	// cache.ParseBMList: the array the uids are written into
	pc := l.load("cache")
	pfd := repFuncDecl(pc, "ParseBMList")
	fresh := false
	initText := ""
	for _, st := range pfd.Body.List {
		as, ok := st.(*ast.AssignStmt)
		if !ok || len(as.Lhs) != 1 || len(as.Rhs) != 1 {
			continue
		}
		if id, ok := as.Lhs[0].(*ast.Ident); !ok || id.Name != "uids" {
			continue
		}
		initText = types.ExprString(as.Rhs[0])
		if u, ok := ast.Unparen(as.Rhs[0]).(*ast.UnaryExpr); ok && u.Op == token.AND {
			_, fresh = ast.Unparen(u.X).(*ast.CompositeLit)
		}
		break
	}
	fmt.Fprintf(&lf.b, "\n/- cache.ParseBMList starts from `%s` -/\n", strings.ReplaceAll(initText, "\n", " "))
	fmt.Fprintf(&lf.b, "def parseBMListFreshArray : Bool := %v\n", fresh)

	// ptt.showBoardList: the result list is allocated by this call (make) and not handed to anything that outlives it
	sfd := repFuncDecl(p, "showBoardList")
	made, escapes := false, ""
	ast.Inspect(sfd.Body, func(n ast.Node) bool {
		switch x := n.(type) {
		case *ast.AssignStmt:
			if len(x.Lhs) == 1 && len(x.Rhs) == 1 {
				if id, ok := x.Lhs[0].(*ast.Ident); ok && id.Name == "summary" {
					if call, ok := ast.Unparen(x.Rhs[0]).(*ast.CallExpr); ok {
						if f, ok := call.Fun.(*ast.Ident); ok && f.Name == "make" {
							made = true
						} else if escapes == "" {
							escapes = "summary = " + types.ExprString(x.Rhs[0])
						}
					} else if escapes == "" {
						escapes = "summary = " + types.ExprString(x.Rhs[0])
					}
				}
			}
		case *ast.DeferStmt:
			escapes = "defer " + types.ExprString(x.Call)
		case *ast.GoStmt:
			escapes = "go " + types.ExprString(x.Call)
		}
		return true
	})
	fmt.Fprintf(&lf.b, "\n/- ptt.showBoardList: result list made by the call: %v; released / shared: %s -/\n", made, leanStr(escapes))
	fmt.Fprintf(&lf.b, "def showBoardListFresh : Bool := %v\n", made && escapes == "")
}
