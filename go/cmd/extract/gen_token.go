package main

// Gen/Token.lean (C16): what the SOURCE of package api says about the three kinds of JSON web tokens.
//
//   - api/00-config.go: the default values of the three secrets (as bytes), the expiry durations, the
//     `typ` of a refresh token, the guest name; api/const.go: EPSILON_EXPIRE_TS; api/email_token_context.go:
//     the two e-mail contexts;
//   - api/auth_utils.go, for each of CreateToken / CreateRefreshToken / CreateEmailToken: the signing method
//     named in jwt.NewWithClaims, the claim names of the MapClaims literal, the secret handed to
//     SignedString, the expiry variable added to the clock;
//   - for each of VerifyJwt / VerifyRefreshJwt / VerifyEmailJwt: the parse*Claim function it calls, the secret
//     that function hands to ParseJwt and the claims it reads with ParseClaimString / ParseClaimInt;
//   - ParseJwt: whether the key callback is `return secret, nil` and nothing else (then the choice of the
//     algorithm is left to what the library accepts for a []byte key);
//   - api/refresh.go: the two expiry variables whose difference is the expected distance of a pair.
//
// Only facts are extracted, not the shape of the statements: renaming a local variable or reordering
// independent checks does not change this file.

import (
	"fmt"
	"go/ast"
	"go/constant"
	"go/token"
	"go/types"
	"os"
	"path/filepath"
	"sort"
	"strings"

	"golang.org/x/tools/go/packages"
)

func tokFunc(p *packages.Package, name string) *ast.FuncDecl {
	for _, f := range p.Syntax {
		for _, d := range f.Decls {
			if fd, ok := d.(*ast.FuncDecl); ok && fd.Recv == nil && fd.Name.Name == name && fd.Body != nil {
				return fd
			}
		}
	}
	fatal("%s: no function %s", p.PkgPath, name)
	return nil
}

func tokCallName(c *ast.CallExpr) string {
	switch f := c.Fun.(type) {
	case *ast.SelectorExpr:
		return f.Sel.Name
	case *ast.Ident:
		return f.Name
	}
	return ""
}

func tokIdent(e ast.Expr) string {
	e = ast.Unparen(e)
	if c, ok := e.(*ast.CallExpr); ok && len(c.Args) == 1 { // a conversion such as []byte(X)
		return tokIdent(c.Args[0])
	}
	if id, ok := e.(*ast.Ident); ok {
		return id.Name
	}
	return ""
}

// value of a package-level var with a constant initialiser
func tokVarInt(p *packages.Package, name string) int64 {
	e := varInit(p, name)
	tv, ok := p.TypesInfo.Types[e]
	if !ok || tv.Value == nil {
		fatal("api.%s: initialiser is not a constant expression", name)
	}
	v, exact := constant.Int64Val(constant.ToInt(tv.Value))
	if !exact {
		fatal("api.%s: not an int64", name)
	}
	return v
}

func tokVarString(p *packages.Package, name string) string {
	e := varInit(p, name)
	tv, ok := p.TypesInfo.Types[e]
	if !ok || tv.Value == nil || tv.Value.Kind() != constant.String {
		fatal("api.%s: initialiser is not a string constant", name)
	}
	return constant.StringVal(tv.Value)
}

func tokVarBytes(p *packages.Package, name string) []string {
	flat, dims := litInts(p, varInit(p, name))
	if len(dims) != 1 {
		fatal("api.%s: not a byte string", name)
	}
	return flat
}

var tokTTLVars = []string{"JWT_TOKEN_EXPIRE_TS", "EMAIL_JWT_TOKEN_EXPIRE_TS", "REFRESH_JWT_TOKEN_EXPIRE_TS"}
var tokSecretVars = []string{"JWT_SECRET", "REFRESH_JWT_SECRET", "EMAIL_JWT_SECRET"}

func tokIsOneOf(s string, set []string) bool {
	for _, x := range set {
		if x == s {
			return true
		}
	}
	return false
}

type tokCreate struct {
	alg, secret, ttl string
	claims           []string
}

func tokReadCreate(p *packages.Package, fn string) tokCreate {
	fd := tokFunc(p, fn)
	var r tokCreate
	ttls := map[string]bool{}
	ast.Inspect(fd.Body, func(n ast.Node) bool {
		switch x := n.(type) {
		case *ast.CallExpr:
			switch tokCallName(x) {
			case "NewWithClaims":
				if len(x.Args) != 2 {
					fatal("api.%s: NewWithClaims with %d arguments", fn, len(x.Args))
				}
				m := ""
				if se, ok := x.Args[0].(*ast.SelectorExpr); ok {
					m = se.Sel.Name
				}
				if !strings.HasPrefix(m, "SigningMethod") {
					fatal("api.%s: signing method is not a jwt.SigningMethodXXX selector", fn)
				}
				r.alg = strings.TrimPrefix(m, "SigningMethod")
				cl, ok := ast.Unparen(x.Args[1]).(*ast.CompositeLit)
				if !ok {
					fatal("api.%s: claims are not a composite literal", fn)
				}
				for _, el := range cl.Elts {
					kv, ok := el.(*ast.KeyValueExpr)
					if !ok {
						fatal("api.%s: claims literal without keys", fn)
					}
					tv := p.TypesInfo.Types[kv.Key]
					if tv.Value == nil || tv.Value.Kind() != constant.String {
						fatal("api.%s: claim name is not a string constant", fn)
					}
					r.claims = append(r.claims, constant.StringVal(tv.Value))
				}
			case "SignedString":
				if len(x.Args) == 1 {
					r.secret = tokIdent(x.Args[0])
				}
			}
		case *ast.Ident:
			if tokIsOneOf(x.Name, tokTTLVars) {
				ttls[x.Name] = true
			}
		}
		return true
	})
	if r.alg == "" || !tokIsOneOf(r.secret, tokSecretVars) {
		fatal("api.%s: could not read signing method / secret (%q, %q)", fn, r.alg, r.secret)
	}
	if len(ttls) != 1 {
		fatal("api.%s: expected exactly one expiry variable, found %v", fn, ttls)
	}
	for k := range ttls {
		r.ttl = k
	}
	sort.Strings(r.claims)
	return r
}

type tokVerify struct {
	parseFn, secret string
	claims          [][2]string // (name, "string"|"int"), sorted by name
}

func tokReadVerify(p *packages.Package, fn string) tokVerify {
	fd := tokFunc(p, fn)
	var r tokVerify
	ast.Inspect(fd.Body, func(n ast.Node) bool {
		if c, ok := n.(*ast.CallExpr); ok {
			nm := tokCallName(c)
			if strings.HasPrefix(nm, "parse") && strings.HasSuffix(nm, "Claim") {
				r.parseFn = nm
			}
		}
		return true
	})
	if r.parseFn == "" {
		fatal("api.%s: no call of a parse…Claim function", fn)
	}
	pd := tokFunc(p, r.parseFn)
	ast.Inspect(pd.Body, func(n ast.Node) bool {
		c, ok := n.(*ast.CallExpr)
		if !ok {
			return true
		}
		switch tokCallName(c) {
		case "ParseJwt":
			if len(c.Args) == 2 {
				r.secret = tokIdent(c.Args[1])
			}
		case "ParseClaimString", "ParseClaimInt":
			if len(c.Args) != 2 {
				fatal("api.%s: %s with %d arguments", r.parseFn, tokCallName(c), len(c.Args))
			}
			tv := p.TypesInfo.Types[c.Args[1]]
			if tv.Value == nil || tv.Value.Kind() != constant.String {
				fatal("api.%s: claim name is not a string constant", r.parseFn)
			}
			kind := "string"
			if tokCallName(c) == "ParseClaimInt" {
				kind = "int"
			}
			r.claims = append(r.claims, [2]string{constant.StringVal(tv.Value), kind})
		}
		return true
	})
	if !tokIsOneOf(r.secret, tokSecretVars) {
		fatal("api.%s: ParseJwt is not called with one of the three secrets (%q)", r.parseFn, r.secret)
	}
	sort.Slice(r.claims, func(i, j int) bool { return r.claims[i][0] < r.claims[j][0] })
	return r
}

// tokKeyfuncPlain: ParseJwt's callback is exactly `return <second parameter>, nil`.
func tokKeyfuncPlain(p *packages.Package) bool {
	fd := tokFunc(p, "ParseJwt")
	if fd.Type.Params == nil {
		return false
	}
	var params []string
	for _, f := range fd.Type.Params.List {
		for _, n := range f.Names {
			params = append(params, n.Name)
		}
	}
	if len(params) != 2 {
		return false
	}
	plain, seen := false, 0
	ast.Inspect(fd.Body, func(n ast.Node) bool {
		c, ok := n.(*ast.CallExpr)
		if !ok || tokCallName(c) != "Parse" && tokCallName(c) != "ParseWithClaims" {
			return true
		}
		seen++
		fl, ok := c.Args[len(c.Args)-1].(*ast.FuncLit)
		if !ok || len(fl.Body.List) != 1 {
			return true
		}
		rs, ok := fl.Body.List[0].(*ast.ReturnStmt)
		if !ok || len(rs.Results) != 2 {
			return true
		}
		a, aok := rs.Results[0].(*ast.Ident)
		b, bok := rs.Results[1].(*ast.Ident)
		if aok && bok && a.Name == params[1] && b.Name == "nil" {
			plain = true
		}
		return true
	})
	return plain && seen == 1
}

// the expected distance of a pair in Refresh: `X - Y` with both operands expiry variables
func tokPairDiff(p *packages.Package) (string, string) {
	fd := tokFunc(p, "Refresh")
	var a, b string
	ast.Inspect(fd.Body, func(n ast.Node) bool {
		be, ok := n.(*ast.BinaryExpr)
		if !ok || be.Op != token.SUB {
			return true
		}
		x, y := tokIdent(be.X), tokIdent(be.Y)
		if tokIsOneOf(x, tokTTLVars) && tokIsOneOf(y, tokTTLVars) {
			a, b = x, y
		}
		return true
	})
	if a == "" {
		fatal("api.Refresh: no difference of two expiry variables found")
	}
	return a, b
}

// tokConfigLines reads api/config.go config(): every statement `X = setYConfig("KEY", DEFAULT)` as
// (assigned variable, setter, key, default expression as written).  Anything else in the body is fatal:
// the model of config() is an interpreter over exactly these lines.
func tokConfigLines(p *packages.Package) [][4]string {
	fd := tokFunc(p, "config")
	var out [][4]string
	for _, st := range fd.Body.List {
		as, ok := st.(*ast.AssignStmt)
		if !ok || as.Tok != token.ASSIGN || len(as.Lhs) != 1 || len(as.Rhs) != 1 {
			fatal("api.config: statement at %v is not `X = setYConfig(KEY, DEFAULT)`", p.Fset.Position(st.Pos()))
		}
		lhs, ok := as.Lhs[0].(*ast.Ident)
		call, ok2 := as.Rhs[0].(*ast.CallExpr)
		if !ok || !ok2 || len(call.Args) != 2 {
			fatal("api.config: statement at %v is not `X = setYConfig(KEY, DEFAULT)`", p.Fset.Position(st.Pos()))
		}
		setter := tokCallName(call)
		if setter != "setStringConfig" && setter != "setBytesConfig" && setter != "setIntConfig" {
			fatal("api.config: unknown setter %q at %v", setter, p.Fset.Position(st.Pos()))
		}
		tv := p.TypesInfo.Types[call.Args[0]]
		if tv.Value == nil || tv.Value.Kind() != constant.String {
			fatal("api.config: key is not a string constant at %v", p.Fset.Position(st.Pos()))
		}
		out = append(out, [4]string{lhs.Name, setter, constant.StringVal(tv.Value), types.ExprString(call.Args[1])})
	}
	return out
}

// tokIniAPI: the [go-pttbbs:api] section of an ini file as viper (gopkg.in/ini.v1, default options) reads it:
// `#`/`;` start a comment anywhere, keys are case-insensitive, surrounding quotes are dropped.
// The harness compares the result with what viper + api.InitConfig() really produce (op `useini`).
func tokIniAPI(path string) [][2]string {
	b, err := os.ReadFile(path)
	if err != nil {
		fatal("%v", err)
	}
	var out [][2]string
	section := ""
	for _, line := range strings.Split(string(b), "\n") {
		line = strings.TrimSpace(line)
		if line == "" || line[0] == '#' || line[0] == ';' {
			continue
		}
		if line[0] == '[' && strings.HasSuffix(line, "]") {
			section = strings.ToLower(strings.TrimSpace(line[1 : len(line)-1]))
			continue
		}
		i := strings.IndexAny(line, "=:")
		if i < 0 || section != "go-pttbbs:api" {
			continue
		}
		key := strings.ToLower(strings.TrimSpace(line[:i]))
		val := strings.TrimSpace(line[i+1:])
		if len(val) > 0 && (val[0] == '"' || val[0] == '\'' || val[0] == '`') {
			if j := strings.IndexByte(val[1:], val[0]); j >= 0 {
				val = val[1 : 1+j]
			}
		} else if j := strings.IndexAny(val, "#;"); j >= 0 {
			val = strings.TrimSpace(val[:j])
		}
		out = append(out, [2]string{key, val})
	}
	return out
}

// the ini files shipped with the repository (relative paths, sorted)
func tokShippedInis(repo string) []string {
	var out []string
	for _, pat := range []string{"docs/config/*.ini", "testcase/*.ini", "initgin/testcase/*.ini"} {
		ms, _ := filepath.Glob(filepath.Join(repo, pat))
		for _, m := range ms {
			rel, _ := filepath.Rel(repo, m)
			out = append(out, rel)
		}
	}
	sort.Strings(out)
	return out
}

func tokNatListLit(bs []string) string { return "[" + strings.Join(bs, ", ") + "]" }

func tokLeanStr(s string) string { return fmt.Sprintf("%q", s) }

func tokStrList(xs []string) string {
	q := make([]string, len(xs))
	for i, x := range xs {
		q[i] = tokLeanStr(x)
	}
	return "[" + strings.Join(q, ", ") + "]"
}

func init() {
	register("Token", func(l *loader, repo, out string) {
		p := l.load("api")
		lf := newLean("Token")

		lf.raw("/-! api/00-config.go: default values -/\n")
		secretLean := map[string]string{"JWT_SECRET": "jwtSecret", "REFRESH_JWT_SECRET": "refreshJwtSecret", "EMAIL_JWT_SECRET": "emailJwtSecret"}
		for _, v := range tokSecretVars {
			lf.raw(fmt.Sprintf("-- %s\n", v))
			lf.natList(secretLean[v], tokVarBytes(p, v))
		}
		ttlLean := map[string]string{"JWT_TOKEN_EXPIRE_TS": "jwtTokenExpireTS", "EMAIL_JWT_TOKEN_EXPIRE_TS": "emailJwtTokenExpireTS",
			"REFRESH_JWT_TOKEN_EXPIRE_TS": "refreshJwtTokenExpireTS"}
		for _, v := range tokTTLVars {
			lf.int(ttlLean[v], tokVarInt(p, v))
		}
		lf.natList("guest", bytesOf(tokVarString(p, "GUEST")))
		lf.natList("refreshClaimType", bytesOf(tokVarString(p, "REFRESH_JWT_CLAIM_TYPE")))
		lf.raw("/-! api/const.go, api/email_token_context.go -/\n")
		lf.int("epsilonExpireTS", constInt(p, "EPSILON_EXPIRE_TS"))
		lf.natList("contextChangeEmail", bytesOf(constString(p, "CONTEXT_CHANGE_EMAIL")))
		lf.natList("contextSetIDEmail", bytesOf(constString(p, "CONTEXT_SET_ID_EMAIL")))

		lf.raw("/-! ptttype.STR_GUEST (api/user_utils.go refuses it as the target of an e-mail change) -/\n")
		lf.natList("strGuest", bytesOf(constString(l.load("ptttype"), "STR_GUEST")))
		lf.raw("/-! api/auth_utils.go: token creation -/\n")
		for _, c := range [][2]string{{"CreateToken", "createAccess"}, {"CreateRefreshToken", "createRefresh"}, {"CreateEmailToken", "createEmail"}} {
			r := tokReadCreate(p, c[0])
			lf.raw(fmt.Sprintf("-- %s: jwt.SigningMethod%s, SignedString(%s), clock + %s\n", c[0], r.alg, r.secret, r.ttl))
			lf.raw(fmt.Sprintf("def %sAlg : String := %s\n", c[1], tokLeanStr(r.alg)))
			lf.raw(fmt.Sprintf("def %sKey : List Nat := %s\n", c[1], secretLean[r.secret]))
			lf.raw(fmt.Sprintf("def %sKeyName : String := %s\n", c[1], tokLeanStr(r.secret)))
			lf.raw(fmt.Sprintf("def %sTTL : Int := %s\n", c[1], ttlLean[r.ttl]))
			lf.raw(fmt.Sprintf("def %sTTLName : String := %s\n", c[1], tokLeanStr(r.ttl)))
			lf.raw(fmt.Sprintf("def %sClaims : List String := %s\n\n", c[1], tokStrList(r.claims)))
		}

		lf.raw("/-! api/auth_utils.go: verification -/\n")
		for _, c := range [][2]string{{"VerifyJwt", "verifyAccess"}, {"VerifyRefreshJwt", "verifyRefresh"}, {"VerifyEmailJwt", "verifyEmail"}} {
			r := tokReadVerify(p, c[0])
			lf.raw(fmt.Sprintf("-- %s -> %s: ParseJwt(raw, %s)\n", c[0], r.parseFn, r.secret))
			lf.raw(fmt.Sprintf("def %sKey : List Nat := %s\n", c[1], secretLean[r.secret]))
			lf.raw(fmt.Sprintf("def %sKeyName : String := %s\n", c[1], tokLeanStr(r.secret)))
			var names, kinds []string
			for _, cl := range r.claims {
				names = append(names, cl[0])
				kinds = append(kinds, fmt.Sprintf("(%s, %s)", tokLeanStr(cl[0]), tokLeanStr(cl[1])))
			}
			lf.raw(fmt.Sprintf("def %sClaims : List String := %s\n", c[1], tokStrList(names)))
			lf.raw(fmt.Sprintf("def %sClaimKinds : List (String × String) := [%s]\n\n", c[1], strings.Join(kinds, ", ")))
		}
		lf.raw("/-- ParseJwt's key callback is `return secret, nil` and nothing else. -/\n")
		lf.raw(fmt.Sprintf("def keyfuncPlain : Bool := %v\n\n", tokKeyfuncPlain(p)))

		a, b := tokPairDiff(p)
		lf.raw(fmt.Sprintf("/-- api/refresh.go: expectedDiffExpireTS = %s - %s -/\n", a, b))
		lf.raw(fmt.Sprintf("def pairDiff : Int := %s - %s\n", ttlLean[a], ttlLean[b]))
		lf.raw(fmt.Sprintf("def pairDiffMinuendName : String := %s\ndef pairDiffSubtrahendName : String := %s\n\n", tokLeanStr(a), tokLeanStr(b)))

		// ---- api/config.go: what InitConfig() makes of the variables ----------------------------
		lf.raw("/-! api/config.go config(): `X = setYConfig(\"KEY\", DEFAULT)`, in source order:\n    (assigned variable, setter, key, key as viper looks it up, default expression as written) -/\n")
		lines := tokConfigLines(p)
		lf.raw("def configLines : List (String × String × String × String × String) := [")
		for i, l := range lines {
			if i > 0 {
				lf.raw(",")
			}
			lf.raw(fmt.Sprintf("\n  (%s, %s, %s, %s, %s)", tokLeanStr(l[0]), tokLeanStr(l[1]), tokLeanStr(l[2]), tokLeanStr(strings.ToLower(l[2])), tokLeanStr(l[3])))
		}
		lf.raw("]\n\n")
		// the three setters of api/config_util.go: plain forwarders to configutil (no transformation of the value,
		// in particular no length cap on a secret)?
		lf.raw("/-- api/config_util.go: the body of each setter is exactly `return configutil.SetYConfig(configPrefix, idx, orig)` -/\n")
		lf.raw("def settersPlain : List (String × Bool) := [")
		for i, nm := range []string{"setStringConfig", "setBytesConfig", "setIntConfig"} {
			fd := tokFunc(p, nm)
			plain := false
			if len(fd.Body.List) == 1 && fd.Type.Params != nil {
				var params []string
				for _, f := range fd.Type.Params.List {
					for _, n := range f.Names {
						params = append(params, n.Name)
					}
				}
				if rs, ok := fd.Body.List[0].(*ast.ReturnStmt); ok && len(rs.Results) == 1 && len(params) == 2 {
					if call, ok := rs.Results[0].(*ast.CallExpr); ok && len(call.Args) == 3 {
						want := "configutil.S" + nm[1:]
						if types.ExprString(call.Fun) == want && tokIdent(call.Args[0]) == "configPrefix" &&
							tokIdent(call.Args[1]) == params[0] && tokIdent(call.Args[2]) == params[1] {
							if _, isConv := call.Args[2].(*ast.CallExpr); !isConv {
								plain = true
							}
						}
					}
				}
			}
			if i > 0 {
				lf.raw(", ")
			}
			lf.raw(fmt.Sprintf("(%s, %v)", tokLeanStr(nm), plain))
		}
		lf.raw("]\n\n")
		lf.raw("/-- the package-level variables of api/00-config.go that config() assigns or reads, with their initial\n    values as bytes (an int as its decimal digits) -/\n")
		lf.raw("def initialVars : List (String × List Nat) := [")
		seen := map[string]bool{}
		first := true
		addVar := func(name string) {
			if seen[name] {
				return
			}
			obj := p.Types.Scope().Lookup(name)
			v, ok := obj.(*types.Var)
			if !ok {
				return // not a package-level variable: the model's interpreter refuses the line
			}
			seen[name] = true
			var bs []string
			switch t := v.Type().Underlying().(type) {
			case *types.Basic:
				if t.Info()&types.IsInteger != 0 {
					bs = bytesOf(fmt.Sprint(tokVarInt(p, name)))
				} else if t.Info()&types.IsString != 0 {
					bs = bytesOf(tokVarString(p, name))
				} else {
					return
				}
			case *types.Slice:
				bs = tokVarBytes(p, name)
			default:
				return
			}
			if !first {
				lf.raw(",")
			}
			first = false
			lf.raw(fmt.Sprintf("\n  (%s, %s)", tokLeanStr(name), tokNatListLit(bs)))
		}
		for _, l := range lines {
			addVar(l[0])
			addVar(l[3])
		}
		lf.raw("]\n\n")
		lf.raw("/-! the ini files shipped with the repository: their [go-pttbbs:api] section as viper reads it (lower-case keys) -/\n")
		lf.raw("def iniFiles : List (String × List (String × List Nat)) := [")
		for i, rel := range tokShippedInis(repo) {
			if i > 0 {
				lf.raw(",")
			}
			lf.raw(fmt.Sprintf("\n  (%s, [", tokLeanStr(rel)))
			for j, kv := range tokIniAPI(filepath.Join(repo, rel)) {
				if j > 0 {
					lf.raw(", ")
				}
				lf.raw(fmt.Sprintf("(%s, %s)", tokLeanStr(kv[0]), tokNatListLit(bytesOf(kv[1]))))
			}
			lf.raw("])")
		}
		lf.raw("]\n")
		lf.write(out)
	})
}
