package main

// Gen/PttConfig.lean (C10, configuration wiring): ptttype/config.go config() as data.  Every statement
// `X = setTConfig("KEY", DEFAULT)` (also behind a conversion) becomes a row (variable, setter, key, default as
// written); a site switch takes the value the deployment wrote under KEY, so which key a variable reads is part of
// the behaviour the property talks about (comment layout: OLDRECOMMEND; append path: EDITPOST_SMARTMERGE).
// Statements of another shape (the `serviceModeStr :=` line) are listed by their text in `otherStatements`.

import (
	"fmt"
	"go/ast"
	"go/token"
	"go/types"
	"strings"
)

func init() {
	register("PttConfig", func(l *loader, repo, out string) {
		p := l.load("ptttype")
		lf := newLean("PttConfig")
		var fd *ast.FuncDecl
		for _, f := range p.Syntax {
			for _, d := range f.Decls {
				if x, ok := d.(*ast.FuncDecl); ok && x.Recv == nil && x.Name.Name == "config" && x.Body != nil {
					fd = x
				}
			}
		}
		if fd == nil {
			fatal("ptttype: func config() not found")
		}
		var rows, others []string
		for _, st := range fd.Body.List {
			as, ok := st.(*ast.AssignStmt)
			row := ""
			if ok && as.Tok == token.ASSIGN && len(as.Lhs) == 1 && len(as.Rhs) == 1 {
				if id, ok := as.Lhs[0].(*ast.Ident); ok {
					rhs := ast.Unparen(as.Rhs[0])
					c, _ := rhs.(*ast.CallExpr)
					// a conversion T(setXConfig(...))
					if c != nil && len(c.Args) == 1 {
						if tv, ok := p.TypesInfo.Types[c.Fun]; ok && tv.IsType() {
							c, _ = ast.Unparen(c.Args[0]).(*ast.CallExpr)
						}
					}
					if c != nil && len(c.Args) == 2 {
						if fn, ok := c.Fun.(*ast.Ident); ok && strings.HasPrefix(fn.Name, "set") && strings.HasSuffix(fn.Name, "Config") {
							if tv, ok := p.TypesInfo.Types[c.Args[0]]; ok && tv.Value != nil {
								key := strings.Trim(tv.Value.ExactString(), "\"")
								row = fmt.Sprintf("(%q, %q, %q, %q)", id.Name, fn.Name, key, types.ExprString(c.Args[1]))
							}
						}
					}
				}
			}
			if row != "" {
				rows = append(rows, row)
			} else {
				var b strings.Builder
				b.WriteString(p.Fset.Position(st.Pos()).String())
				txt := b.String()
				if i := strings.LastIndex(txt, "/"); i >= 0 {
					txt = txt[i+1:]
				}
				if as, ok := st.(*ast.AssignStmt); ok && len(as.Lhs) == 1 {
					txt = types.ExprString(as.Lhs[0]) + " " + as.Tok.String() + " " + types.ExprString(as.Rhs[0])
				}
				others = append(others, fmt.Sprintf("%q", txt))
			}
		}
		lf.raw("/-- ptttype/config.go config(): `X = setTConfig(\"KEY\", DEFAULT)` in source order:\n    (assigned variable, setter, key, default expression as written) -/\n")
		lf.raw("def configLines : List (String × String × String × String) := [\n  " + strings.Join(rows, ",\n  ") + "]\n\n")
		lf.raw("/-- statements of config() of any other shape -/\n")
		lf.raw("def otherStatements : List String := [" + strings.Join(others, ", ") + "]\n")
		lf.write(out)
	})
}
