package main

import (
	"fmt"
	"go/ast"
	"go/token"
	"go/types"
	"os"
	"sort"
	"strings"

	"golang.org/x/tools/go/packages"
)

// Gen/Lock.lean (C14): two facts of cmsys/lock.go and cmsys/record.go the lock-table theorems rest on.
//
//  1. lockFns: GoFlock / GoFlockExNb / GoPttLock insert the key into the in-process table (lockFD) and
//     then ask the kernel. When the kernel call fails the callers do not unlock, so the function itself
//     has to take the key out again ("cleanup"); returning the kernel error directly is a "leak".
//  2. lockUsers: every function that takes one of these locks registers the matching unlock with
//     `defer` before any other statement that can return ("deferred"); a return between the successful
//     lock and the defer is "return-before-defer", no deferred unlock at all is "no-defer".
//     Every package of the repository is searched (go/packages, pattern <module>/...).
//  3. lockClose: for the same functions, whose descriptor the unlock is given and when the file is closed
//     (see closeVerdict): "unlock-before-close" when the deferred unlock names the locked file and runs
//     while that file is still open.
//  4. appendCallers: every call of cmsys.AppendRecord in the repository and what the caller does with the
//     error (see appendCallerVerdict): "propagates" / "ignores" / "retries" / "fallback:<writer>".
//  5. appendIndex: for the same calls, what becomes of the index AppendRecord returned (see
//     appendIndexVerdict): "returned" (it reaches the caller's result) / "dropped" / "local-use" /
//     "recomputed:<expr>" (the caller reports an index it got some other way).
//  6. appendSideWriters: for the same calls, the OTHER calls of the function that are given the same record
//     file path and can create / truncate / write it outside AppendRecord (see sideWriterVerdict):
//     "no-other-writer" / "other-writer:<callee>".
func init() {
	register("Lock", func(l *loader, repo, out string) {
		lf := newLean("Lock")
		p := l.load("cmsys")
		funcs := map[string]*ast.FuncDecl{}
		for _, f := range p.Syntax {
			for _, d := range f.Decls {
				if fd, ok := d.(*ast.FuncDecl); ok && fd.Recv == nil && fd.Body != nil {
					funcs[fd.Name.Name] = fd
				}
			}
		}
		lf.raw("/-- lock function ↦ what happens to the lock-table key when the kernel lock is not obtained. -/\n")
		lf.raw("def lockFns : List (String × String) := [")
		for i, name := range []string{"GoFlock", "GoFlockExNb", "GoPttLock"} {
			if i > 0 {
				lf.raw(", ")
			}
			fd := funcs[name]
			if fd == nil {
				fatal("cmsys.%s not found", name)
			}
			lf.raw(fmt.Sprintf("(%q, %q)", name, lockFailurePath(fd)))
		}
		lf.raw("]\n\n")

		lf.raw("/-- function taking a lock ↦ how the unlock is registered. -/\n")
		lf.raw("def lockUsers : List (String × String) := [")
		first := true
		emit := func(pkg, name, verdict string) {
			if !first {
				lf.raw(", ")
			}
			first = false
			lf.raw(fmt.Sprintf("(%q, %q)", pkg+"."+name, verdict))
		}
		all := loadAllPackages(l)
		type closeFact struct{ name, verdict string }
		var closes []closeFact
		for _, pp := range all {
			pk := strings.TrimPrefix(strings.TrimPrefix(pp.PkgPath, modPath), "/")
			for _, f := range pp.Syntax {
				for _, d := range f.Decls {
					fd, ok := d.(*ast.FuncDecl)
					if !ok || fd.Body == nil {
						continue
					}
					if pk == "cmsys" && (fd.Name.Name == "GoFlock" || fd.Name.Name == "GoFlockExNb" || fd.Name.Name == "GoPttLock") {
						continue
					}
					if v := lockUserVerdict(fd); v != "" {
						emit(pk, fd.Name.Name, v)
						closes = append(closes, closeFact{pk + "." + fd.Name.Name, closeVerdict(fd, pp.TypesInfo)})
					}
				}
			}
		}
		lf.raw("]\n\n")

		lf.raw("/-- function taking a lock ↦ whose descriptor its unlock is given, and whether the file is still open then. -/\n")
		lf.raw("def lockClose : List (String × String) := [")
		for i, c := range closes {
			if i > 0 {
				lf.raw(", ")
			}
			lf.raw(fmt.Sprintf("(%q, %q)", c.name, c.verdict))
		}
		lf.raw("]\n\n")

		lf.raw("/-- caller of cmsys.AppendRecord ↦ what it does with the error. -/\n")
		lf.raw("def appendCallers : List (String × String) := [")
		callers := appendCallers(all)
		for i, c := range callers {
			if i > 0 {
				lf.raw(", ")
			}
			lf.raw(fmt.Sprintf("(%q, %q)", c[0], c[1]))
		}
		lf.raw("]\n\n")

		lf.raw("/-- caller of cmsys.AppendRecord ↦ what becomes of the index the call returned. -/\n")
		lf.raw("def appendIndex : List (String × String) := [")
		for i, c := range callers {
			if i > 0 {
				lf.raw(", ")
			}
			lf.raw(fmt.Sprintf("(%q, %q)", c[0], c[2]))
		}
		lf.raw("]\n\n")

		lf.raw("/-- caller of cmsys.AppendRecord ↦ other calls given the same path that can write the record file. -/\n")
		lf.raw("def appendSideWriters : List (String × String) := [")
		for i, c := range callers {
			if i > 0 {
				lf.raw(", ")
			}
			lf.raw(fmt.Sprintf("(%q, %q)", c[0], c[3]))
		}
		lf.raw("]\n")
		lf.write(out)
	})
}

func calleeName(call *ast.CallExpr) string {
	switch f := call.Fun.(type) {
	case *ast.SelectorExpr:
		return f.Sel.Name
	case *ast.Ident:
		return f.Name
	}
	return ""
}

func containsCall(n ast.Node, names ...string) bool {
	found := false
	ast.Inspect(n, func(m ast.Node) bool {
		if c, ok := m.(*ast.CallExpr); ok {
			cn := calleeName(c)
			for _, w := range names {
				if cn == w {
					found = true
				}
			}
		}
		return !found
	})
	return found
}

// lockFailurePath classifies the statements after the lockFD call of a lock function.
func lockFailurePath(fd *ast.FuncDecl) string {
	stmts := fd.Body.List
	i := 0
	for ; i < len(stmts); i++ {
		if containsCall(stmts[i], "lockFD") {
			break
		}
	}
	if i == len(stmts) {
		return "unknown:no-lockFD"
	}
	kernel := []string{"Flock", "pttLock", "FcntlFlock"}
	// a deferred closure that removes the key when err is set covers every later return
	for _, s := range stmts[:] {
		if d, ok := s.(*ast.DeferStmt); ok && containsCall(d, "unlockFD") {
			if strings.Contains(types.ExprString(d.Call.Fun), "err != nil") || deferGuardsOnErr(d) {
				return "cleanup"
			}
		}
	}
	for j := i + 1; j < len(stmts); j++ {
		switch s := stmts[j].(type) {
		case *ast.ReturnStmt:
			if containsCall(s, kernel...) {
				return "leak" // the kernel's error goes straight to the caller
			}
		case *ast.AssignStmt:
			if containsCall(s, kernel...) {
				// expect: if err != nil { unlockFD(...); return err }
				if j+1 < len(stmts) {
					if ifs, ok := stmts[j+1].(*ast.IfStmt); ok && strings.Contains(types.ExprString(ifs.Cond), "!= nil") {
						if containsCall(ifs.Body, "unlockFD") {
							return "cleanup"
						}
						return "leak"
					}
				}
				return "unknown:unchecked-kernel-call"
			}
		case *ast.IfStmt:
			if s.Init != nil && containsCall(s.Init, kernel...) {
				if containsCall(s.Body, "unlockFD") {
					return "cleanup"
				}
				return "leak"
			}
		}
	}
	return "unknown"
}

func deferGuardsOnErr(d *ast.DeferStmt) bool {
	fl, ok := d.Call.Fun.(*ast.FuncLit)
	if !ok {
		return false
	}
	guarded := false
	ast.Inspect(fl.Body, func(n ast.Node) bool {
		if ifs, ok := n.(*ast.IfStmt); ok && strings.Contains(types.ExprString(ifs.Cond), "err != nil") && containsCall(ifs.Body, "unlockFD") {
			guarded = true
		}
		return !guarded
	})
	return guarded
}

// lockUserVerdict: "" when the function takes no lock at its top level.
func lockUserVerdict(fd *ast.FuncDecl) string {
	stmts := fd.Body.List
	locks := []string{"GoFlock", "GoFlockExNb", "GoPttLock"}
	unlocks := []string{"GoFunlock", "GoPttUnlock"}
	i := -1
	for k, s := range stmts {
		if as, ok := s.(*ast.AssignStmt); ok && containsCall(as, locks...) {
			i = k
			break
		}
		if ifs, ok := s.(*ast.IfStmt); ok && ifs.Init != nil && containsCall(ifs.Init, locks...) {
			i = k
			break
		}
	}
	if i < 0 {
		if containsCall(fd.Body, locks...) {
			return "unknown:nested-lock"
		}
		return ""
	}
	j := i + 1
	// the error check of the lock call itself
	if _, isAssign := stmts[i].(*ast.AssignStmt); isAssign {
		if j < len(stmts) {
			if ifs, ok := stmts[j].(*ast.IfStmt); ok && strings.Contains(types.ExprString(ifs.Cond), "!= nil") && !containsCall(ifs, unlocks...) {
				j++
			} else {
				return "unknown:lock-error-unchecked"
			}
		}
	}
	for ; j < len(stmts); j++ {
		if d, ok := stmts[j].(*ast.DeferStmt); ok && containsCall(d, unlocks...) {
			return "deferred"
		}
		// anything that can leave the function before the defer is registered
		canReturn := false
		ast.Inspect(stmts[j], func(n ast.Node) bool {
			switch n.(type) {
			case *ast.ReturnStmt:
				canReturn = true
			case *ast.FuncLit:
				return false
			}
			return !canReturn
		})
		if canReturn {
			return "return-before-defer"
		}
		if es, ok := stmts[j].(*ast.ExprStmt); ok {
			if c, ok := es.X.(*ast.CallExpr); ok && calleeName(c) == "Point" {
				continue // verif hook
			}
		}
	}
	return "no-defer"
}

// ---------------------------------------------------------------- round 4: every package, close order, callers

// loadAllPackages loads every package of the repository (non-test files, default build tags), sorted by path.
func loadAllPackages(l *loader) []*packages.Package {
	cfg := &packages.Config{
		Mode: packages.NeedName | packages.NeedFiles | packages.NeedSyntax | packages.NeedTypes |
			packages.NeedTypesInfo | packages.NeedImports | packages.NeedDeps,
		Dir: l.repo,
		Env: append(os.Environ(), "GOFLAGS=-mod=mod", "GOPROXY=off", "GOSUMDB=off", "GOTOOLCHAIN=local"),
	}
	if l.tags != "" {
		cfg.BuildFlags = []string{"-tags=" + l.tags}
	}
	ps, err := packages.Load(cfg, modPath+"/...")
	if err != nil {
		fatal("load %s/...: %v", modPath, err)
	}
	var out []*packages.Package
	for _, p := range ps {
		if len(p.Errors) > 0 {
			fatal("load %s: %v", p.PkgPath, p.Errors)
		}
		if p.PkgPath == modPath || strings.HasPrefix(p.PkgPath, modPath+"/") {
			out = append(out, p)
		}
	}
	if len(out) == 0 {
		fatal("load %s/...: no packages", modPath)
	}
	sort.Slice(out, func(i, j int) bool { return out[i].PkgPath < out[j].PkgPath })
	return out
}

// cmsysFunc: the call's callee is the function cmsys.<one of names> (resolved by the type checker, so an
// import alias or a dot import makes no difference; inside package cmsys the bare name).
func cmsysFunc(info *types.Info, call *ast.CallExpr, names ...string) string {
	var id *ast.Ident
	switch f := call.Fun.(type) {
	case *ast.SelectorExpr:
		id = f.Sel
	case *ast.Ident:
		id = f
	default:
		return ""
	}
	fn, ok := info.Uses[id].(*types.Func)
	if !ok || fn.Pkg() == nil || fn.Pkg().Path() != modPath+"/cmsys" {
		return ""
	}
	if sig, ok := fn.Type().(*types.Signature); ok && sig.Recv() != nil {
		return ""
	}
	for _, n := range names {
		if fn.Name() == n {
			return n
		}
	}
	return ""
}

func identObj(info *types.Info, e ast.Expr) types.Object {
	id, ok := e.(*ast.Ident)
	if !ok {
		return nil
	}
	if o := info.Uses[id]; o != nil {
		return o
	}
	return info.Defs[id]
}

// stripConv removes parentheses and type conversions: uintptr(x), int(x), (x).
func stripConv(info *types.Info, e ast.Expr) ast.Expr {
	for {
		switch x := e.(type) {
		case *ast.ParenExpr:
			e = x.X
			continue
		case *ast.CallExpr:
			if len(x.Args) == 1 {
				if tv, ok := info.Types[x.Fun]; ok && tv.IsType() {
					e = x.Args[0]
					continue
				}
			}
		}
		return e
	}
}

// fdCallFile: e is `<ident>.Fd()` — the ident's object.
func fdCallFile(info *types.Info, e ast.Expr) types.Object {
	c, ok := stripConv(info, e).(*ast.CallExpr)
	if !ok || len(c.Args) != 0 {
		return nil
	}
	sel, ok := c.Fun.(*ast.SelectorExpr)
	if !ok || sel.Sel.Name != "Fd" {
		return nil
	}
	return identObj(info, stripConv(info, sel.X))
}

// fileOfLockArg resolves the first argument of a lock / unlock call to the *os.File variable it stands for:
//
//	file            (GoPttLock / GoPttUnlock)
//	file.Fd()       possibly converted
//	fd              where the function has exactly one assignment to fd and it is `fd := file.Fd()`
//
// why != "" when the shape is not one of these.
func fileOfLockArg(info *types.Info, body *ast.BlockStmt, arg ast.Expr, wantFile bool) (file types.Object, why string) {
	arg = stripConv(info, arg)
	if wantFile {
		if o := identObj(info, arg); o != nil {
			return o, ""
		}
		return nil, "lock-arg"
	}
	if o := fdCallFile(info, arg); o != nil {
		return o, ""
	}
	fdObj := identObj(info, arg)
	if fdObj == nil {
		return nil, "lock-arg"
	}
	n := 0
	ast.Inspect(body, func(m ast.Node) bool {
		switch s := m.(type) {
		case *ast.AssignStmt:
			for i, lhs := range s.Lhs {
				if identObj(info, lhs) == fdObj {
					n++
					if len(s.Lhs) == len(s.Rhs) {
						file = fdCallFile(info, s.Rhs[i])
					}
				}
			}
		case *ast.ValueSpec:
			for i, name := range s.Names {
				if info.Defs[name] == fdObj {
					n++
					if i < len(s.Values) {
						file = fdCallFile(info, s.Values[i])
					}
				}
			}
		case *ast.IncDecStmt:
			if identObj(info, s.X) == fdObj {
				n += 2
			}
		case *ast.UnaryExpr:
			if s.Op == token.AND && identObj(info, s.X) == fdObj {
				n += 2 // address taken: may be changed elsewhere
			}
		}
		return true
	})
	if n != 1 {
		return nil, "fd-reassigned"
	}
	if file == nil {
		return nil, "fd-origin"
	}
	return file, ""
}

// closeVerdict (fact 3) — for a function that takes one of the locks at its top level:
//
//	"unlock-before-close"   the deferred unlock is given the locked file's descriptor (the file itself,
//	                        file.Fd(), or a variable assigned once from file.Fd()), and the file cannot be
//	                        closed before that unlock runs: every Close of it is either registered with
//	                        `defer` as a statement of the function body BEFORE the deferred unlock (so it runs
//	                        after it), or is an explicit call on a path that returns before the unlock is
//	                        registered (e.g. the error branch of the lock call itself); a function that
//	                        never closes the file (the caller's file) is fine too
//	"close-before-unlock"   an explicit Close after the unlock was registered (also `return file.Close()`),
//	                        or a deferred Close registered after the deferred unlock: the unlock runs on a
//	                        descriptor NUMBER that may by then name another goroutine's file
//	"fd-mismatch"           the unlock is given another file's descriptor than the lock
//	"unknown:<why>"         a shape this analysis does not recognise
func closeVerdict(fd *ast.FuncDecl, info *types.Info) string {
	locks := []string{"GoFlock", "GoFlockExNb", "GoPttLock"}
	unlocks := []string{"GoFunlock", "GoPttUnlock"}
	var lockCall *ast.CallExpr
	ast.Inspect(fd.Body, func(n ast.Node) bool {
		if c, ok := n.(*ast.CallExpr); ok && lockCall == nil && cmsysFunc(info, c, locks...) != "" {
			lockCall = c
		}
		return lockCall == nil
	})
	if lockCall == nil || len(lockCall.Args) == 0 {
		return "unknown:no-lock-call"
	}
	file, why := fileOfLockArg(info, fd.Body, lockCall.Args[0], cmsysFunc(info, lockCall, "GoPttLock") != "")
	if why != "" {
		return "unknown:" + why
	}
	// the deferred unlock: a statement of the function body
	unlockIdx := -1
	var unlockCall *ast.CallExpr
	for k, s := range fd.Body.List {
		d, ok := s.(*ast.DeferStmt)
		if !ok {
			continue
		}
		ast.Inspect(d, func(n ast.Node) bool {
			if c, ok := n.(*ast.CallExpr); ok && unlockCall == nil && cmsysFunc(info, c, unlocks...) != "" {
				unlockCall = c
			}
			return unlockCall == nil
		})
		if unlockCall != nil {
			unlockIdx = k
			break
		}
	}
	if unlockCall == nil || len(unlockCall.Args) == 0 {
		return "unknown:no-deferred-unlock"
	}
	ufile, why := fileOfLockArg(info, fd.Body, unlockCall.Args[0], cmsysFunc(info, unlockCall, "GoPttUnlock") != "")
	if why != "" {
		return "unknown:unlock-" + why
	}
	if ufile != file {
		return "fd-mismatch"
	}
	unlockPos := fd.Body.List[unlockIdx].Pos()
	// the file variable must stay the same file
	reassigned := false
	ast.Inspect(fd.Body, func(n ast.Node) bool {
		if as, ok := n.(*ast.AssignStmt); ok {
			for _, lhs := range as.Lhs {
				if id, ok := lhs.(*ast.Ident); ok && info.Uses[id] == file { // Uses: not its definition
					reassigned = true
				}
			}
		}
		return true
	})
	if reassigned {
		return "unknown:file-reassigned"
	}
	// every Close of the file
	verdict := "unlock-before-close"
	var stack []ast.Node
	ast.Inspect(fd.Body, func(n ast.Node) bool {
		if n == nil {
			stack = stack[:len(stack)-1]
			return true
		}
		stack = append(stack, n)
		c, ok := n.(*ast.CallExpr)
		if !ok || !closesFile(info, c, file) {
			return true
		}
		// inside a defer?
		var def *ast.DeferStmt
		for _, m := range stack {
			if d, ok := m.(*ast.DeferStmt); ok {
				def = d
				break
			}
		}
		if def != nil {
			top := false
			for k, s := range fd.Body.List {
				if s == ast.Stmt(def) {
					top = true
					if k > unlockIdx {
						verdict = "close-before-unlock"
					}
				}
			}
			if !top && verdict == "unlock-before-close" {
				verdict = "unknown:conditional-deferred-close"
			}
			return true
		}
		if c.Pos() > unlockPos {
			verdict = "close-before-unlock"
			return true
		}
		// an explicit close before the unlock is registered: its block must leave the function
		leaves := false
		for k := len(stack) - 1; k >= 0; k-- {
			if b, ok := stack[k].(*ast.BlockStmt); ok {
				if len(b.List) > 0 {
					_, leaves = b.List[len(b.List)-1].(*ast.ReturnStmt)
				}
				if b == fd.Body {
					leaves = false // falls through to the deferred unlock
				}
				break
			}
		}
		if !leaves {
			verdict = "close-before-unlock"
		}
		return true
	})
	return verdict
}

// closesFile: file.Close(), or a Close(…) call of another package (syscall.Close, unix.Close) whose
// arguments mention the file.
func closesFile(info *types.Info, c *ast.CallExpr, file types.Object) bool {
	sel, ok := c.Fun.(*ast.SelectorExpr)
	if !ok || sel.Sel.Name != "Close" {
		return false
	}
	if identObj(info, stripConv(info, sel.X)) == file {
		return true
	}
	mentions := false
	for _, a := range c.Args {
		ast.Inspect(a, func(n ast.Node) bool {
			if id, ok := n.(*ast.Ident); ok && info.Uses[id] == file {
				mentions = true
			}
			return true
		})
	}
	return mentions
}

// appendCallers (fact 4): one entry per call of cmsys.AppendRecord in the repository, "<pkg>.<func>"
// (with "#k" from the second call in one function on).
func appendCallers(all []*packages.Package) [][4]string {
	decls := funcDecls(all)
	var out [][4]string
	for _, pp := range all {
		pk := strings.TrimPrefix(strings.TrimPrefix(pp.PkgPath, modPath), "/")
		for _, f := range pp.Syntax {
			for _, d := range f.Decls {
				fd, ok := d.(*ast.FuncDecl)
				if !ok || fd.Body == nil {
					continue
				}
				k := 0
				var stack []ast.Node
				ast.Inspect(fd.Body, func(n ast.Node) bool {
					if n == nil {
						stack = stack[:len(stack)-1]
						return true
					}
					stack = append(stack, n)
					if c, ok := n.(*ast.CallExpr); ok && cmsysFunc(pp.TypesInfo, c, "AppendRecord") != "" {
						k++
						name := pk + "." + fd.Name.Name
						if fd.Recv != nil && len(fd.Recv.List) > 0 {
							name = pk + "." + types.ExprString(fd.Recv.List[0].Type) + "." + fd.Name.Name
						}
						if k > 1 {
							name += fmt.Sprintf("#%d", k)
						}
						st := append([]ast.Node{}, stack...)
						out = append(out, [4]string{name, appendCallerVerdict(pp.TypesInfo, c, st), appendIndexVerdict(pp.TypesInfo, fd, c, st), sideWriterVerdict(pp.TypesInfo, fd, c, decls)})
					}
					return true
				})
			}
		}
	}
	return out
}

func mentionsObj(info *types.Info, n ast.Node, o types.Object) bool {
	found := false
	ast.Inspect(n, func(m ast.Node) bool {
		if id, ok := m.(*ast.Ident); ok && (info.Uses[id] == o) {
			found = true
		}
		return !found
	})
	return found
}

// appendCallerVerdict — recognised shapes (err stands for the variable the call's error is assigned to):
//
//	return cmsys.AppendRecord(…)                                   "propagates"
//	x, err := cmsys.AppendRecord(…)   followed, possibly after statements that do not touch err, by
//	    if err != nil { <only logging / Close / error wrapping>; return … }   "propagates"
//	    return …, err                                              "propagates"
//	    if err != nil { <only logging> }  (no return) / nothing / err overwritten   "ignores"
//	if _, err := cmsys.AppendRecord(…); err != nil { … }           as the `if` above
//	_, _ = cmsys.AppendRecord(…) / x, _ := … / a bare call statement   "ignores"
//	an error branch (any `if` whose condition mentions err) that calls AppendRecord again   "retries"
//	an error branch that calls something that writes (SubstituteRecord, DeleteRecord, BinaryWrite, Write*,
//	    WriteFile, OpenFile, Create, Fprint*, Truncate, Rename, LogFile*)   "fallback:<name>"
//	an error branch that calls anything else but logrus.*, fmt.Errorf/Sprint*, errors.*, Close, Error,
//	    verifhook.Point                                            "unknown:call-in-error-branch:<name>"
//	anything else                                                  "unknown:<why>"
func appendCallerVerdict(info *types.Info, call *ast.CallExpr, stack []ast.Node) string {
	// the innermost statement holding the call, its parent, and the block + position it sits in
	si := -1
	for k := len(stack) - 1; k >= 0; k-- {
		if _, ok := stack[k].(ast.Stmt); ok {
			si = k
			break
		}
	}
	if si < 0 {
		return "unknown:no-statement"
	}
	for k := si; k < len(stack); k++ {
		if _, ok := stack[k].(*ast.FuncLit); ok {
			return "unknown:in-closure"
		}
	}
	switch s := stack[si].(type) {
	case *ast.ReturnStmt:
		if len(s.Results) == 1 && stripParen(s.Results[0]) == ast.Expr(call) {
			return "propagates"
		}
		return "unknown:return-shape"
	case *ast.ExprStmt:
		if stripParen(s.X) == ast.Expr(call) {
			return "ignores"
		}
		return "unknown:expr-shape"
	case *ast.GoStmt, *ast.DeferStmt:
		return "ignores"
	case *ast.AssignStmt:
		if len(s.Rhs) != 1 || stripParen(s.Rhs[0]) != ast.Expr(call) || len(s.Lhs) != 2 {
			return "unknown:assign-shape"
		}
		eid, ok := s.Lhs[1].(*ast.Ident)
		if !ok {
			return "unknown:error-target"
		}
		if eid.Name == "_" {
			return "ignores"
		}
		errObj := identObj(info, eid)
		if errObj == nil {
			return "unknown:error-target"
		}
		if si > 0 {
			if ifs, ok := stack[si-1].(*ast.IfStmt); ok && ifs.Init == ast.Stmt(s) {
				v, decided := errIfVerdict(info, ifs, errObj)
				if decided {
					return v
				}
				return "ignores"
			}
		}
		if si == 0 {
			return "unknown:no-block"
		}
		var list []ast.Stmt
		switch b := stack[si-1].(type) {
		case *ast.BlockStmt:
			list = b.List
		case *ast.CaseClause:
			list = b.Body
		case *ast.CommClause:
			list = b.Body
		default:
			return "unknown:not-in-block"
		}
		idx := -1
		for k, st := range list {
			if st == ast.Stmt(s) {
				idx = k
			}
		}
		for _, st := range list[idx+1:] {
			if !mentionsObj(info, st, errObj) {
				if _, ok := st.(*ast.ReturnStmt); ok {
					return "ignores"
				}
				continue
			}
			switch t := st.(type) {
			case *ast.IfStmt:
				if t.Init != nil && mentionsObj(info, t.Init, errObj) {
					return "ignores" // err is given a new value before it is looked at
				}
				if !mentionsObj(info, t.Cond, errObj) {
					return "unknown:err-use"
				}
				v, decided := errIfVerdict(info, t, errObj)
				if decided {
					return v
				}
				continue
			case *ast.ReturnStmt:
				return "propagates"
			case *ast.AssignStmt:
				onRhs := false
				for _, r := range t.Rhs {
					if mentionsObj(info, r, errObj) {
						onRhs = true
					}
				}
				if !onRhs {
					return "ignores" // overwritten unread
				}
				return "unknown:err-use"
			default:
				return "unknown:err-use"
			}
		}
		return "ignores"
	}
	return "unknown:call-shape"
}

func stripParen(e ast.Expr) ast.Expr {
	for {
		p, ok := e.(*ast.ParenExpr)
		if !ok {
			return e
		}
		e = p.X
	}
}

// errIfVerdict looks at an `if` whose condition mentions err. decided = false: the branch neither
// leaves the function nor does anything but logging (go on with the statements after it).
func errIfVerdict(info *types.Info, ifs *ast.IfStmt, errObj types.Object) (string, bool) {
	verdict := ""
	var scan func(n ast.Node)
	scan = func(n ast.Node) {
		ast.Inspect(n, func(m ast.Node) bool {
			c, ok := m.(*ast.CallExpr)
			if !ok || verdict != "" && !strings.HasPrefix(verdict, "unknown:") {
				return true
			}
			if tv, ok := info.Types[c.Fun]; ok && tv.IsType() {
				return true // conversion
			}
			if cmsysFunc(info, c, "AppendRecord") != "" {
				verdict = "retries"
				return true
			}
			name, pkg := calleeName(c), ""
			if sel, ok := c.Fun.(*ast.SelectorExpr); ok {
				if fn, ok := info.Uses[sel.Sel].(*types.Func); ok && fn.Pkg() != nil {
					pkg = fn.Pkg().Path()
				}
			} else if id, ok := c.Fun.(*ast.Ident); ok {
				if _, isBuiltin := info.Uses[id].(*types.Builtin); isBuiltin {
					return true
				}
			}
			switch {
			case isWriterName(name):
				verdict = "fallback:" + name
			case strings.HasSuffix(pkg, "/logrus") || pkg == "errors" || pkg == "log" || strings.HasSuffix(pkg, "/verifhook"):
			case pkg == "fmt" && (name == "Errorf" || strings.HasPrefix(name, "Sprint")):
			case name == "Close" || name == "Error" || name == "Is" || name == "As":
			default:
				if verdict == "" {
					verdict = "unknown:call-in-error-branch:" + name
				}
			}
			return true
		})
	}
	scan(ifs.Body)
	if ifs.Else != nil {
		scan(ifs.Else)
	}
	if verdict != "" {
		return verdict, true
	}
	if len(ifs.Body.List) > 0 {
		if _, ok := ifs.Body.List[len(ifs.Body.List)-1].(*ast.ReturnStmt); ok {
			cond := types.ExprString(ifs.Cond)
			if strings.Contains(cond, "!= nil") {
				return "propagates", true
			}
			return "unknown:conditional-return", true
		}
	}
	return "", false
}

func isWriterName(n string) bool {
	switch n {
	case "SubstituteRecord", "DeleteRecord", "BinaryWrite", "Write", "WriteString", "WriteAt", "WriteFile", "OpenFile",
		"Create", "Truncate", "Rename", "Fprintf", "Fprint", "Fprintln", "LogFile", "LogFilef", "Pwrite":
		return true
	}
	return false
}

// ---------------------------------------------------------------- round 5: the index a caller reports

func isSortIdx(t types.Type) bool {
	n, ok := t.(*types.Named)
	return ok && n.Obj().Name() == "SortIdx" && n.Obj().Pkg() != nil && n.Obj().Pkg().Path() == modPath+"/ptttype"
}

// appendIndexVerdict — what becomes of the index cmsys.AppendRecord returned:
//
//	"returned"           return cmsys.AppendRecord(…), or the index variable (assigned only by this call)
//	                     reaches a return statement / a named result, directly or through assignments
//	                     (summary = New…(idx, …); return summary)
//	"dropped"            the index is not kept (`_`, bare call) and the function handles no other value
//	                     of type ptttype.SortIdx: it reports no index
//	"local-use"          kept, does not reach the result, and the function handles no other SortIdx value
//	"recomputed:<expr>"  the index variable is assigned again, or the index is dropped / not returned while
//	                     the function handles another ptttype.SortIdx value <expr> (e.g. the board total read
//	                     after the lock was released)
//	"unknown:<why>"      a shape this analysis does not recognise
func appendIndexVerdict(info *types.Info, fd *ast.FuncDecl, call *ast.CallExpr, stack []ast.Node) string {
	si := -1
	for k := len(stack) - 1; k >= 0; k-- {
		if _, ok := stack[k].(ast.Stmt); ok {
			si = k
			break
		}
	}
	if si < 0 {
		return "unknown:no-statement"
	}
	var idxObj types.Object
	var own *ast.AssignStmt
	switch s := stack[si].(type) {
	case *ast.ReturnStmt:
		if len(s.Results) == 1 && stripParen(s.Results[0]) == ast.Expr(call) {
			return "returned"
		}
		return "unknown:return-shape"
	case *ast.ExprStmt, *ast.GoStmt, *ast.DeferStmt:
	case *ast.AssignStmt:
		if len(s.Rhs) != 1 || stripParen(s.Rhs[0]) != ast.Expr(call) || len(s.Lhs) != 2 {
			return "unknown:assign-shape"
		}
		id, ok := s.Lhs[0].(*ast.Ident)
		if !ok {
			return "unknown:index-target"
		}
		own = s
		if id.Name != "_" {
			if idxObj = identObj(info, id); idxObj == nil {
				return "unknown:index-target"
			}
		}
	default:
		return "unknown:call-shape"
	}
	tainted := map[types.Object]bool{}
	if idxObj != nil {
		tainted[idxObj] = true
		// assigned anywhere else?
		again := ""
		ast.Inspect(fd.Body, func(n ast.Node) bool {
			switch s := n.(type) {
			case *ast.AssignStmt:
				if s == own {
					return true
				}
				for i, lhs := range s.Lhs {
					if identObj(info, lhs) == idxObj && again == "" {
						again = "?"
						if len(s.Lhs) == len(s.Rhs) {
							again = types.ExprString(s.Rhs[i])
						} else if len(s.Rhs) == 1 {
							again = types.ExprString(s.Rhs[0])
						}
					}
				}
			case *ast.IncDecStmt:
				if identObj(info, s.X) == idxObj && again == "" {
					again = types.ExprString(s.X) + s.Tok.String()
				}
			case *ast.UnaryExpr:
				if s.Op == token.AND && identObj(info, s.X) == idxObj && again == "" {
					again = "&" + types.ExprString(s.X)
				}
			}
			return true
		})
		if again != "" {
			return "recomputed:" + again
		}
		// what the index flows into
		mentions := func(n ast.Node) bool {
			found := false
			ast.Inspect(n, func(m ast.Node) bool {
				if id, ok := m.(*ast.Ident); ok && tainted[info.Uses[id]] {
					found = true
				}
				return !found
			})
			return found
		}
		rootObj := func(e ast.Expr) types.Object {
			for {
				switch x := e.(type) {
				case *ast.SelectorExpr:
					e = x.X
				case *ast.IndexExpr:
					e = x.X
				case *ast.StarExpr:
					e = x.X
				case *ast.ParenExpr:
					e = x.X
				default:
					return identObj(info, e)
				}
			}
		}
		for changed := true; changed; {
			changed = false
			ast.Inspect(fd.Body, func(n ast.Node) bool {
				switch s := n.(type) {
				case *ast.AssignStmt:
					hit := false
					for _, r := range s.Rhs {
						if mentions(r) {
							hit = true
						}
					}
					if hit {
						for _, lhs := range s.Lhs {
							if o := rootObj(lhs); o != nil && !tainted[o] {
								tainted[o] = true
								changed = true
							}
						}
					}
				case *ast.ValueSpec:
					hit := false
					for _, r := range s.Values {
						if mentions(r) {
							hit = true
						}
					}
					if hit {
						for _, nm := range s.Names {
							if o := info.Defs[nm]; o != nil && !tainted[o] {
								tainted[o] = true
								changed = true
							}
						}
					}
				}
				return true
			})
		}
		reaches := false
		if fd.Type.Results != nil {
			for _, f := range fd.Type.Results.List {
				for _, nm := range f.Names {
					if tainted[info.Defs[nm]] {
						reaches = true
					}
				}
			}
		}
		ast.Inspect(fd.Body, func(n ast.Node) bool {
			if _, ok := n.(*ast.FuncLit); ok {
				return false
			}
			if r, ok := n.(*ast.ReturnStmt); ok && mentions(r) {
				reaches = true
			}
			return !reaches
		})
		if reaches {
			return "returned"
		}
	}
	// not returned: does the function handle an index it got some other way?
	other, otherIdent := "", ""
	ast.Inspect(fd.Body, func(n ast.Node) bool {
		if n == ast.Node(call) || other != "" {
			return false
		}
		e, ok := n.(ast.Expr)
		if !ok {
			return true
		}
		if id, ok := e.(*ast.Ident); ok {
			o := info.Uses[id]
			if o == nil {
				o = info.Defs[id]
			}
			if o == nil || tainted[o] {
				return true
			}
			if _, isVar := o.(*types.Var); isVar && isSortIdx(o.Type()) && otherIdent == "" {
				otherIdent = id.Name
			}
			return true
		}
		if tv, ok := info.Types[e]; ok && !tv.IsType() && tv.Type != nil && isSortIdx(tv.Type) {
			other = types.ExprString(e)
			return false
		}
		return true
	})
	if other == "" {
		other = otherIdent
	}
	if other != "" {
		return "recomputed:" + other
	}
	if idxObj != nil {
		return "local-use"
	}
	return "dropped"
}

// ---------------------------------------------------------------- round 7: other writers of the same record file

type declInfo struct {
	fd   *ast.FuncDecl
	info *types.Info
}

func funcDecls(all []*packages.Package) map[types.Object]declInfo {
	m := map[types.Object]declInfo{}
	for _, pp := range all {
		for _, f := range pp.Syntax {
			for _, d := range f.Decls {
				if fd, ok := d.(*ast.FuncDecl); ok && fd.Body != nil {
					if o := pp.TypesInfo.Defs[fd.Name]; o != nil {
						m[o] = declInfo{fd, pp.TypesInfo}
					}
				}
			}
		}
	}
	return m
}

func calleeFunc(info *types.Info, c *ast.CallExpr) *types.Func {
	var id *ast.Ident
	switch f := c.Fun.(type) {
	case *ast.SelectorExpr:
		id = f.Sel
	case *ast.Ident:
		id = f
	default:
		return nil
	}
	fn, _ := info.Uses[id].(*types.Func)
	return fn
}

// fileWriterCall: a call that by itself creates, truncates, removes, renames or opens-for-writing a file.
func fileWriterCall(info *types.Info, c *ast.CallExpr) bool {
	fn := calleeFunc(info, c)
	if fn == nil {
		return false
	}
	pkg := ""
	if fn.Pkg() != nil {
		pkg = fn.Pkg().Path()
	}
	switch fn.Name() {
	case "Create", "CreateTemp", "Truncate", "Remove", "RemoveAll", "WriteFile", "Rename", "Link", "Symlink":
		return pkg == "os" || pkg == "io/ioutil" || pkg == "syscall" || pkg == "golang.org/x/sys/unix"
	case "OpenFile":
		if pkg != "os" || len(c.Args) < 2 {
			return pkg == "os"
		}
		fl := types.ExprString(c.Args[1])
		return strings.Contains(fl, "O_WRONLY") || strings.Contains(fl, "O_RDWR") || strings.Contains(fl, "O_TRUNC") ||
			strings.Contains(fl, "O_CREATE") || strings.Contains(fl, "O_APPEND") || !strings.Contains(fl, "O_RDONLY")
	}
	return false
}

// sideWriterVerdict — the record file is named by the first argument of the AppendRecord call. Every other
// call in the same function that is given the same path (the same variable, or a textually identical
// expression) is looked at:
//
//	a call that itself creates / truncates / removes / renames / opens-for-writing (os.Create, os.OpenFile
//	with a writing flag, os.Truncate, os.Remove, os.WriteFile, os.Rename, …)         "other-writer:<callee>"
//	a function of the repository (any package) whose body contains such a call, a (*os.File).Truncate,
//	or a call of cmsys.SubstituteRecord / DeleteRecord (one level: its own body)      "other-writer:<callee>"
//	cmsys.AppendRecord itself (a second append), functions of the repository without such a call,
//	and os.Stat / os.Open / os.Lstat, path/filepath, fmt, logrus, errors               not a writer
//	any other function outside the repository                                           "unknown:callee:<name>"
//
// cmsys.SubstituteRecord / DeleteRecord called directly: "other-writer:<callee>", except in a block of its own
// that ends with return and does not contain the append: "exclusive-slot-writer".
// "no-other-writer" when nothing is found. Only calls given the SAME path are counted: the article file that
// DoPostArticle renames is another file.
func sideWriterVerdict(info *types.Info, fd *ast.FuncDecl, call *ast.CallExpr, decls map[types.Object]declInfo) string {
	if len(call.Args) == 0 {
		return "unknown:no-path-argument"
	}
	pathExpr := stripConv(info, call.Args[0])
	pathObj := identObj(info, pathExpr)
	pathText := types.ExprString(pathExpr)
	samePath := func(e ast.Expr) bool {
		e = stripConv(info, e)
		if pathObj != nil {
			return identObj(info, e) == pathObj
		}
		return types.ExprString(e) == pathText
	}
	verdict := "no-other-writer"
	var stack []ast.Node
	ast.Inspect(fd.Body, func(n ast.Node) bool {
		if n == nil {
			stack = stack[:len(stack)-1]
			return true
		}
		stack = append(stack, n)
		c, ok := n.(*ast.CallExpr)
		if !ok || c == call || strings.HasPrefix(verdict, "other-writer:") {
			return true
		}
		given := false
		for _, a := range c.Args {
			if samePath(a) {
				given = true
			}
		}
		if !given {
			return true
		}
		if tv, ok := info.Types[c.Fun]; ok && tv.IsType() {
			return true
		}
		fn := calleeFunc(info, c)
		name := calleeName(c)
		if fn == nil {
			if _, isBuiltin := info.Uses[identOf(c.Fun)].(*types.Builtin); isBuiltin {
				return true
			}
			verdict = "unknown:callee:" + name
			return true
		}
		if cmsysFunc(info, c, "AppendRecord") != "" {
			return true
		}
		if fileWriterCall(info, c) {
			verdict = "other-writer:" + name
			return true
		}
		if cmsysFunc(info, c, "SubstituteRecord", "DeleteRecord") != "" {
			// an in-place write of one slot. In a branch of its own that returns without reaching the append
			// (ptt.addBoardRecord re-uses a vacated slot of .BRD, else appends) it is the request's alternative
			// to appending, not a second writer beside its append.
			exclusive := false
			for k := len(stack) - 1; k >= 0; k-- {
				if b, ok := stack[k].(*ast.BlockStmt); ok && b != fd.Body {
					_, ret := b.List[len(b.List)-1].(*ast.ReturnStmt)
					exclusive = ret && !(b.Pos() <= call.Pos() && call.End() <= b.End())
					break
				}
			}
			if exclusive {
				if verdict == "no-other-writer" {
					verdict = "exclusive-slot-writer"
				}
			} else {
				verdict = "other-writer:" + name
			}
			return true
		}
		if d, ok := decls[fn]; ok {
			writes := false
			ast.Inspect(d.fd.Body, func(m ast.Node) bool {
				if cc, ok := m.(*ast.CallExpr); ok {
					if fileWriterCall(d.info, cc) || cmsysFunc(d.info, cc, "SubstituteRecord", "DeleteRecord") != "" {
						writes = true
					}
					if sel, ok := cc.Fun.(*ast.SelectorExpr); ok && sel.Sel.Name == "Truncate" {
						writes = true
					}
				}
				return !writes
			})
			if writes {
				verdict = "other-writer:" + name
			}
			return true
		}
		pkg := ""
		if fn.Pkg() != nil {
			pkg = fn.Pkg().Path()
		}
		switch {
		case pkg == "os" && (name == "Stat" || name == "Lstat" || name == "Open" || name == "ReadFile"):
		case pkg == "path" || pkg == "path/filepath" || pkg == "fmt" || pkg == "errors" || pkg == "strings" || pkg == "log" || strings.HasSuffix(pkg, "/logrus"):
		default:
			if verdict == "no-other-writer" {
				verdict = "unknown:callee:" + name
			}
		}
		return true
	})
	return verdict
}

func identOf(e ast.Expr) *ast.Ident {
	if id, ok := e.(*ast.Ident); ok {
		return id
	}
	return &ast.Ident{}
}
