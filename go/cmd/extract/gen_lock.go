package main

import (
	"fmt"
	"go/ast"
	"go/types"
	"strings"
)

// Gen/Lock.lean (C14): two facts of cmsys/lock.go and cmsys/record.go the lock-table theorems rest on.
//
//  1. lockFns: GoFlock / GoFlockExNb / GoPttLock insert the key into the in-process table (lockFD) and
//     then ask the kernel. When the kernel call fails the callers do not unlock, so the function itself
//     has to take the key out again ("cleanup"); returning the kernel error directly is a "leak".
//  2. lockUsers: every function that takes one of these locks registers the matching unlock with
//     `defer` before any other statement that can return ("deferred"); a return between the successful
//     lock and the defer is "return-before-defer", no deferred unlock at all is "no-defer".
func init() {
	register("Lock", func(l *loader, repo, out string) {
		lf := newLean("Lock")
		p := l.load("cmsys")
		funcs := map[string]*ast.FuncDecl{}
		for _, f := range p.Syntax {
			for _, d := range f.Decls {
				if fd, ok := d.(*ast.FuncDecl); ok && fd.Recv == nil && fd.Body != nil {
					funcs[fd.Name.Name] = fd
				}
			}
		}
		lf.raw("/-- lock function ↦ what happens to the lock-table key when the kernel lock is not obtained. -/\n")
		lf.raw("def lockFns : List (String × String) := [")
		for i, name := range []string{"GoFlock", "GoFlockExNb", "GoPttLock"} {
			if i > 0 {
				lf.raw(", ")
			}
			fd := funcs[name]
			if fd == nil {
				fatal("cmsys.%s not found", name)
			}
			lf.raw(fmt.Sprintf("(%q, %q)", name, lockFailurePath(fd)))
		}
		lf.raw("]\n\n")

		lf.raw("/-- function taking a lock ↦ how the unlock is registered. -/\n")
		lf.raw("def lockUsers : List (String × String) := [")
		first := true
		emit := func(pkg, name, verdict string) {
			if !first {
				lf.raw(", ")
			}
			first = false
			lf.raw(fmt.Sprintf("(%q, %q)", pkg+"."+name, verdict))
		}
		for _, pk := range []string{"cmsys", "ptt"} {
			pp := l.load(pk)
			for _, f := range pp.Syntax {
				for _, d := range f.Decls {
					fd, ok := d.(*ast.FuncDecl)
					if !ok || fd.Body == nil {
						continue
					}
					if pk == "cmsys" && (fd.Name.Name == "GoFlock" || fd.Name.Name == "GoFlockExNb" || fd.Name.Name == "GoPttLock") {
						continue
					}
					if v := lockUserVerdict(fd); v != "" {
						emit(pk, fd.Name.Name, v)
					}
				}
			}
		}
		lf.raw("]\n")
		lf.write(out)
	})
}

func calleeName(call *ast.CallExpr) string {
	switch f := call.Fun.(type) {
	case *ast.SelectorExpr:
		return f.Sel.Name
	case *ast.Ident:
		return f.Name
	}
	return ""
}

func containsCall(n ast.Node, names ...string) bool {
	found := false
	ast.Inspect(n, func(m ast.Node) bool {
		if c, ok := m.(*ast.CallExpr); ok {
			cn := calleeName(c)
			for _, w := range names {
				if cn == w {
					found = true
				}
			}
		}
		return !found
	})
	return found
}

// lockFailurePath classifies the statements after the lockFD call of a lock function.
func lockFailurePath(fd *ast.FuncDecl) string {
	stmts := fd.Body.List
	i := 0
	for ; i < len(stmts); i++ {
		if containsCall(stmts[i], "lockFD") {
			break
		}
	}
	if i == len(stmts) {
		return "unknown:no-lockFD"
	}
	kernel := []string{"Flock", "pttLock", "FcntlFlock"}
	// a deferred closure that removes the key when err is set covers every later return
	for _, s := range stmts[:] {
		if d, ok := s.(*ast.DeferStmt); ok && containsCall(d, "unlockFD") {
			if strings.Contains(types.ExprString(d.Call.Fun), "err != nil") || deferGuardsOnErr(d) {
				return "cleanup"
			}
		}
	}
	for j := i + 1; j < len(stmts); j++ {
		switch s := stmts[j].(type) {
		case *ast.ReturnStmt:
			if containsCall(s, kernel...) {
				return "leak" // the kernel's error goes straight to the caller
			}
		case *ast.AssignStmt:
			if containsCall(s, kernel...) {
				// expect: if err != nil { unlockFD(...); return err }
				if j+1 < len(stmts) {
					if ifs, ok := stmts[j+1].(*ast.IfStmt); ok && strings.Contains(types.ExprString(ifs.Cond), "!= nil") {
						if containsCall(ifs.Body, "unlockFD") {
							return "cleanup"
						}
						return "leak"
					}
				}
				return "unknown:unchecked-kernel-call"
			}
		case *ast.IfStmt:
			if s.Init != nil && containsCall(s.Init, kernel...) {
				if containsCall(s.Body, "unlockFD") {
					return "cleanup"
				}
				return "leak"
			}
		}
	}
	return "unknown"
}

func deferGuardsOnErr(d *ast.DeferStmt) bool {
	fl, ok := d.Call.Fun.(*ast.FuncLit)
	if !ok {
		return false
	}
	guarded := false
	ast.Inspect(fl.Body, func(n ast.Node) bool {
		if ifs, ok := n.(*ast.IfStmt); ok && strings.Contains(types.ExprString(ifs.Cond), "err != nil") && containsCall(ifs.Body, "unlockFD") {
			guarded = true
		}
		return !guarded
	})
	return guarded
}

// lockUserVerdict: "" when the function takes no lock at its top level.
func lockUserVerdict(fd *ast.FuncDecl) string {
	stmts := fd.Body.List
	locks := []string{"GoFlock", "GoFlockExNb", "GoPttLock"}
	unlocks := []string{"GoFunlock", "GoPttUnlock"}
	i := -1
	for k, s := range stmts {
		if as, ok := s.(*ast.AssignStmt); ok && containsCall(as, locks...) {
			i = k
			break
		}
		if ifs, ok := s.(*ast.IfStmt); ok && ifs.Init != nil && containsCall(ifs.Init, locks...) {
			i = k
			break
		}
	}
	if i < 0 {
		if containsCall(fd.Body, locks...) {
			return "unknown:nested-lock"
		}
		return ""
	}
	j := i + 1
	// the error check of the lock call itself
	if _, isAssign := stmts[i].(*ast.AssignStmt); isAssign {
		if j < len(stmts) {
			if ifs, ok := stmts[j].(*ast.IfStmt); ok && strings.Contains(types.ExprString(ifs.Cond), "!= nil") && !containsCall(ifs, unlocks...) {
				j++
			} else {
				return "unknown:lock-error-unchecked"
			}
		}
	}
	for ; j < len(stmts); j++ {
		if d, ok := stmts[j].(*ast.DeferStmt); ok && containsCall(d, unlocks...) {
			return "deferred"
		}
		// anything that can leave the function before the defer is registered
		canReturn := false
		ast.Inspect(stmts[j], func(n ast.Node) bool {
			switch n.(type) {
			case *ast.ReturnStmt:
				canReturn = true
			case *ast.FuncLit:
				return false
			}
			return !canReturn
		})
		if canReturn {
			return "return-before-defer"
		}
		if es, ok := stmts[j].(*ast.ExprStmt); ok {
			if c, ok := es.X.(*ast.CallExpr); ok && calleeName(c) == "Point" {
				continue // verif hook
			}
		}
	}
	return "no-defer"
}
