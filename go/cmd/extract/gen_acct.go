package main

// Gen/Acct.lean (C03): what the SOURCE says about user ids and the account record.
//
//   - ptttype constants under the default build tags: IDLEN, PASSLEN, EMAILSZ, MAX_USERS, USHM_SIZE, STR_GUEST,
//     STR_REGNEW; Sizeof(UserecRaw) and offset/size of its UserID, PasswdHash and Email fields (go/types, gc/amd64);
//   - types.Isalpha / types.Isnumber as data: the list of closed byte intervals `c >= lo && c <= hi` that return true;
//   - UserID_t.IsValid as data: the length guard `theLen OP k || theLen OP k` (codes as in Gen/Money.lean:
//     0 "<", 1 "<=", 2 ">", 3 ">=", 4 "==", 5 "!="), and the names of the character tests it calls, in source order
//     (first the test of u[0], then the test inside the loop);
//   - the record field each of cmbbs.PasswdQueryPasswd / PasswdUpdatePasswd / PasswdUpdateEmail names in its
//     `unsafe.Offsetof(ptttype.USEREC_RAW.<Field>)`.

import (
	"fmt"
	"go/ast"
	"go/constant"
	"go/token"
	"go/types"
	"strings"

	"golang.org/x/tools/go/packages"
)

func acctFunc(p *packages.Package, recv, name string) *ast.FuncDecl {
	for _, f := range p.Syntax {
		for _, d := range f.Decls {
			fd, ok := d.(*ast.FuncDecl)
			if !ok || fd.Name.Name != name || fd.Body == nil {
				continue
			}
			if recv == "" && fd.Recv == nil {
				return fd
			}
			if recv != "" && fd.Recv != nil && len(fd.Recv.List) == 1 {
				t := fd.Recv.List[0].Type
				if s, ok := t.(*ast.StarExpr); ok {
					t = s.X
				}
				if id, ok := t.(*ast.Ident); ok && id.Name == recv {
					return fd
				}
			}
		}
	}
	fatal("%s: no function %s.%s", p.PkgPath, recv, name)
	return nil
}

func acctConstOf(p *packages.Package, e ast.Expr) (int64, bool) {
	tv, ok := p.TypesInfo.Types[e]
	if !ok || tv.Value == nil {
		return 0, false
	}
	v := constant.ToInt(tv.Value)
	if v.Kind() != constant.Int {
		return 0, false
	}
	return constant.Int64Val(v)
}

// acctIntervals reads a ctype predicate of the shape
//
//	if c >= K && c <= K { return true } ... return false
func acctIntervals(p *packages.Package, fn string) []string {
	fd := acctFunc(p, "", fn)
	var out []string
	n := len(fd.Body.List)
	for i, st := range fd.Body.List {
		if i == n-1 {
			rs, ok := st.(*ast.ReturnStmt)
			if !ok || len(rs.Results) != 1 || types.ExprString(rs.Results[0]) != "false" {
				fatal("types.%s: the last statement is not `return false`", fn)
			}
			continue
		}
		is, ok := st.(*ast.IfStmt)
		if !ok || is.Init != nil || is.Else != nil || len(is.Body.List) != 1 {
			fatal("types.%s: statement %d is not a plain if", fn, i)
		}
		if rs, ok := is.Body.List[0].(*ast.ReturnStmt); !ok || len(rs.Results) != 1 || types.ExprString(rs.Results[0]) != "true" {
			fatal("types.%s: an if does not `return true`", fn)
		}
		b, ok := ast.Unparen(is.Cond).(*ast.BinaryExpr)
		if !ok || b.Op != token.LAND {
			fatal("types.%s: condition is not a conjunction", fn)
		}
		lo, ok1 := ast.Unparen(b.X).(*ast.BinaryExpr)
		hi, ok2 := ast.Unparen(b.Y).(*ast.BinaryExpr)
		if !ok1 || !ok2 || lo.Op != token.GEQ || hi.Op != token.LEQ {
			fatal("types.%s: condition is not `c >= lo && c <= hi`", fn)
		}
		l, okl := acctConstOf(p, lo.Y)
		h, okh := acctConstOf(p, hi.Y)
		if !okl || !okh {
			fatal("types.%s: non-constant interval bound", fn)
		}
		out = append(out, fmt.Sprintf("(%d, %d)", l, h))
	}
	return out
}

func acctOffsetofField(p *packages.Package, fn string) string {
	fd := acctFunc(p, "", fn)
	field := ""
	n := 0
	ast.Inspect(fd.Body, func(nd ast.Node) bool {
		call, ok := nd.(*ast.CallExpr)
		if !ok || len(call.Args) != 1 {
			return true
		}
		sel, ok := call.Fun.(*ast.SelectorExpr)
		if !ok || sel.Sel.Name != "Offsetof" {
			return true
		}
		if x, ok := sel.X.(*ast.Ident); !ok || x.Name != "unsafe" {
			return true
		}
		arg, ok := ast.Unparen(call.Args[0]).(*ast.SelectorExpr)
		if !ok {
			fatal("cmbbs.%s: unsafe.Offsetof of something that is not a field selector", fn)
		}
		field = arg.Sel.Name
		n++
		return true
	})
	if n != 1 {
		fatal("cmbbs.%s: expected exactly one unsafe.Offsetof, found %d", fn, n)
	}
	return field
}

func init() {
	register("Acct", func(l *loader, repo, out string) {
		pb := l.load("cmbbs")
		pt := pb.Imports[modPath+"/ptttype"]
		if pt == nil || pt.Types == nil {
			fatal("cmbbs does not import ptttype")
		}
		ptFull := l.load("ptttype")
		ty := l.load("types")
		sizes := types.SizesFor("gc", "amd64")

		tn, ok := lookup(pt, "UserecRaw").(*types.TypeName)
		if !ok {
			fatal("ptttype.UserecRaw is not a type")
		}
		st, ok := tn.Type().Underlying().(*types.Struct)
		if !ok {
			fatal("ptttype.UserecRaw is not a struct")
		}
		fields := make([]*types.Var, st.NumFields())
		for i := range fields {
			fields[i] = st.Field(i)
		}
		offs := sizes.Offsetsof(fields)
		fieldOff := func(name string) (int64, int64) {
			for i, f := range fields {
				if f.Name() == name {
					return offs[i], sizes.Sizeof(f.Type())
				}
			}
			fatal("ptttype.UserecRaw has no field %s", name)
			return 0, 0
		}

		// ---- UserID_t.IsValid ---------------------------------------------------------------
		fd := acctFunc(ptFull, "UserID_t", "IsValid")
		var guard []string
		var guardText string
		var tests []string
		ast.Inspect(fd.Body, func(nd ast.Node) bool {
			switch x := nd.(type) {
			case *ast.IfStmt:
				b, ok := ast.Unparen(x.Cond).(*ast.BinaryExpr)
				if ok && b.Op == token.LOR && guard == nil {
					var texts []string
					for _, side := range []ast.Expr{b.X, b.Y} {
						c, ok := ast.Unparen(side).(*ast.BinaryExpr)
						if !ok {
							fatal("UserID_t.IsValid: length guard disjunct is not a comparison")
						}
						code, ok := moneyCmpCode[c.Op]
						if !ok {
							fatal("UserID_t.IsValid: length guard uses operator %v", c.Op)
						}
						id, ok := ast.Unparen(c.X).(*ast.Ident)
						if !ok || id.Name != "theLen" {
							fatal("UserID_t.IsValid: length guard is not about theLen")
						}
						v, ok := acctConstOf(ptFull, c.Y)
						if !ok {
							fatal("UserID_t.IsValid: length guard compares against a non-constant")
						}
						guard = append(guard, fmt.Sprintf("(%d, %d)", code, v))
						texts = append(texts, fmt.Sprintf("theLen %s %d", c.Op, v))
					}
					guardText = strings.Join(texts, " || ")
				}
			case *ast.CallExpr:
				if sel, ok := x.Fun.(*ast.SelectorExpr); ok {
					if pk, ok := sel.X.(*ast.Ident); ok && pk.Name == "types" && strings.HasPrefix(sel.Sel.Name, "Is") {
						tests = append(tests, sel.Sel.Name)
					}
				}
			}
			return true
		})
		if len(guard) != 2 || len(tests) != 2 {
			fatal("UserID_t.IsValid: expected one two-sided length guard and two character tests, found %d / %v", len(guard), tests)
		}
		// theLen must be types.Cstrlen(u[:])
		lenSrc := ""
		ast.Inspect(fd.Body, func(nd ast.Node) bool {
			as, ok := nd.(*ast.AssignStmt)
			if !ok || len(as.Lhs) != 1 || len(as.Rhs) != 1 {
				return true
			}
			if id, ok := as.Lhs[0].(*ast.Ident); ok && id.Name == "theLen" {
				lenSrc = types.ExprString(as.Rhs[0])
			}
			return true
		})

		// ---- the password-less account: the test LoginQuery / InitCurrentUser apply to the STORED id ----------
		pp := l.load("ptt")
		guestTest := func(fn string) string {
			fd := acctFunc(pp, "", fn)
			found := ""
			ast.Inspect(fd.Body, func(nd ast.Node) bool {
				is, ok := nd.(*ast.IfStmt)
				if !ok || found != "" {
					return true
				}
				txt := types.ExprString(is.Cond)
				if strings.Contains(strings.ToLower(txt), "guest") {
					found = txt
				}
				return true
			})
			if found == "" {
				fatal("ptt.%s: no condition that mentions the guest account", fn)
			}
			return found
		}

		idOff, idSz := fieldOff("UserID")
		pwOff, pwSz := fieldOff("PasswdHash")
		emOff, emSz := fieldOff("Email")

		lf := newLean("Acct")
		lf.raw("/- ptttype (default build tags), layout by go/types for gc/amd64 -/\n")
		lf.nat("idLen", constInt(pt, "IDLEN"))
		lf.nat("passLen", constInt(pt, "PASSLEN"))
		lf.nat("maxUsers", constInt(pt, "MAX_USERS"))
		lf.nat("ushmSize", constInt(pt, "USHM_SIZE"))
		lf.natList("strGuest", bytesOf(constString(pt, "STR_GUEST")))
		lf.natList("strRegnew", bytesOf(constString(pt, "STR_REGNEW")))
		lf.nat("recSize", sizes.Sizeof(tn.Type()))
		lf.nat("userIDOffset", idOff)
		lf.nat("userIDSize", idSz)
		lf.nat("passwdOffset", pwOff)
		lf.nat("passwdSize", pwSz)
		lf.nat("emailOffset", emOff)
		lf.nat("emailSize", emSz)
		lf.raw("\n/- types/ctype.go: the closed intervals on which the predicate returns true -/\n")
		lf.raw(fmt.Sprintf("def alphaRanges : List (Nat × Nat) := [%s]\n", strings.Join(acctIntervals(ty, "Isalpha"), ", ")))
		lf.raw(fmt.Sprintf("def numberRanges : List (Nat × Nat) := [%s]\n", strings.Join(acctIntervals(ty, "Isnumber"), ", ")))
		lf.raw("\n/- ptttype.UserID_t.IsValid -/\n")
		lf.raw(fmt.Sprintf("def lenSource : String := %q\n", lenSrc))
		lf.raw(fmt.Sprintf("-- rejected when: %s\n", guardText))
		lf.raw(fmt.Sprintf("def lenGuard : List (Nat × Nat) := [%s]\n", strings.Join(guard, ", ")))
		lf.raw(fmt.Sprintf("def firstCharTest : String := %q\n", tests[0]))
		lf.raw(fmt.Sprintf("def loopCharTest : String := %q\n", tests[1]))
		lf.raw("\n/- ptt/mbbsd.go, ptt/passwd.go: the condition under which an account is treated as the password-less guest -/\n")
		lf.raw(fmt.Sprintf("def loginGuestTest : String := %q\n", guestTest("LoginQuery")))
		lf.raw(fmt.Sprintf("def initGuestTest : String := %q\n", guestTest("InitCurrentUser")))
		lf.raw("\n/- cmbbs/passwd.go: the field named in unsafe.Offsetof(ptttype.USEREC_RAW.<Field>) -/\n")
		lf.raw(fmt.Sprintf("def queryPasswdField : String := %q\n", acctOffsetofField(pb, "PasswdQueryPasswd")))
		lf.raw(fmt.Sprintf("def updatePasswdField : String := %q\n", acctOffsetofField(pb, "PasswdUpdatePasswd")))
		lf.raw(fmt.Sprintf("def updateEmailField : String := %q\n", acctOffsetofField(pb, "PasswdUpdateEmail")))
		lf.write(out)
	})
}
