module verifharness

go 1.22.0

toolchain go1.23.5

require (
	github.com/Ptt-official-app/go-pttbbs v0.0.0
	github.com/sirupsen/logrus v1.9.3
	github.com/spf13/viper v1.18.2
	golang.org/x/tools v0.29.0
)

require (
	github.com/fsnotify/fsnotify v1.7.0 // indirect
	github.com/gabriel-vasile/mimetype v1.4.3 // indirect
	github.com/gin-contrib/sse v0.1.0 // indirect
	github.com/gin-gonic/gin v1.10.0 // indirect
	github.com/go-playground/locales v0.14.1 // indirect
	github.com/go-playground/universal-translator v0.18.1 // indirect
	github.com/go-playground/validator/v10 v10.20.0 // indirect
	github.com/golang-jwt/jwt/v4 v4.5.0 // indirect
	github.com/google/uuid v1.6.0 // indirect
	github.com/hashicorp/hcl v1.0.0 // indirect
	github.com/leodido/go-urn v1.4.0 // indirect
	github.com/magiconair/properties v1.8.7 // indirect
	github.com/mattn/go-isatty v0.0.20 // indirect
	github.com/mitchellh/mapstructure v1.5.0 // indirect
	github.com/pelletier/go-toml/v2 v2.2.2 // indirect
	github.com/sagikazarmark/slog-shim v0.1.0 // indirect
	github.com/spf13/afero v1.11.0 // indirect
	github.com/spf13/cast v1.6.0 // indirect
	github.com/spf13/pflag v1.0.5 // indirect
	github.com/subosito/gotenv v1.6.0 // indirect
	github.com/ugorji/go/codec v1.2.12 // indirect
	golang.org/x/crypto v0.32.0 // indirect
	golang.org/x/mod v0.22.0 // indirect
	golang.org/x/net v0.34.0 // indirect
	golang.org/x/sync v0.10.0 // indirect
	golang.org/x/sys v0.29.0 // indirect
	golang.org/x/text v0.21.0 // indirect
	google.golang.org/protobuf v1.34.1 // indirect
	gopkg.in/ini.v1 v1.67.0 // indirect
	gopkg.in/yaml.v3 v3.0.1 // indirect
)

replace github.com/Ptt-official-app/go-pttbbs => /repo

// C10 imports package api (gin): keep the versions /repo itself builds with (the newer ones x/tools would select are not in the offline module cache)
replace golang.org/x/crypto => golang.org/x/crypto v0.23.0

replace golang.org/x/text => golang.org/x/text v0.15.0
